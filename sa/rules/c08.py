"""C08 - retry, timeout and recovery contract of an exchange.

  C08.a  retry semantics (retry-loop exploration, budgets 1..4, every sequence of read outcomes): transmissions ∈ [1, R];
         a successful read is followed by no further transmission; R consecutive timeouts end in TimeoutError after
         exactly R transmissions; every transmission writes the same packet.  Same for LAN.authenticate's loop.
  C08.b  cleanup before failure exits: every exit of the send loop by final timeout, ProtocolError or cancellation
         passes through _disconnect() after the last read; cancellation leaves as TimeoutError; _disconnect closes and
         drops the protocol; a failing _connect stores no protocol
  C08.c  connect / write failures stay inside the contract (E4 with environment raisers): escapes of LAN._connect
         ⊆ {ProtocolError, TimeoutError}; _LanProtocol.write raises ProtocolError on a closing transport; alive is
         false for a missing or closing transport
  C08.d  device level: nothing escapes Device._send_command; send() re-establishes the connection when not alive
         (must-pass-through) and _alive is false without a protocol; refresh derives `online` from this refresh's responses
"""
from __future__ import annotations

import ast

from ..absint import EventAnalysis, run_events
from ..facts import atoms, call_is, meth_is, strip
from ..model import AnalysisError, is_self_attr, norm
from ..raises import Config, Raises
from ..retry import Explorer
from ..terms import is_const, show, subterms, summarize
from .c09 import make as make_raises

LAN = "msmart.lan.LAN"
PROTO = "msmart.lan.ProtocolError"
AUTHERR = "msmart.lan.AuthenticationError"
BUDGETS = [1, 2, 3, 4]


def find_loop(fn, pred, prog=None):
    """Compatibility wrapper: the loop may live in fn or in a helper a refactoring extracted from it."""
    from ..helpers import find_loop as fl
    if prog is None:
        for n in ast.walk(fn.node):
            if isinstance(n, ast.While) and any(isinstance(c, ast.Call) and pred(c) for c in ast.walk(n)):
                return n
        return None
    loop, owner = fl(prog, fn, pred)
    find_loop.owner = owner
    return loop


def counter_names(loop):
    """The retry counter: a name the loop updates (augmented / plain assignment) and compares with constants."""
    updated = {n.target.id for n in ast.walk(loop) if isinstance(n, ast.AugAssign) and isinstance(n.target, ast.Name)}
    updated |= {t.id for n in ast.walk(loop) if isinstance(n, ast.Assign) for t in n.targets
                if isinstance(t, ast.Name) and isinstance(n.value, ast.BinOp) and any(isinstance(x, ast.Name) and x.id == t.id for x in ast.walk(n.value))}
    compared = {x.id for n in ast.walk(loop) if isinstance(n, ast.Compare) for x in ast.walk(n) if isinstance(x, ast.Name)}
    tested = {n.id for n in ast.walk(loop.test) if isinstance(n, ast.Name)}
    names = (updated & compared) or tested
    return sorted(names)


def attr_call(c, *path):
    """c is a call self.<a>.<b>(...) / self.<a>(...) with the given attribute path."""
    f = c.func
    parts = []
    while isinstance(f, ast.Attribute):
        parts.append(f.attr)
        f = f.value
    if not (isinstance(f, ast.Name) and f.id == "self"):
        return False
    return tuple(reversed(parts)) == path


def run(ctx):
    prog = ctx.prog
    ctx.explanation = ("exploration of the retry loops' control automata for budgets 1..4 with non-deterministic read outcomes (conditional "
                       "constant propagation of the counter, event traces of write / read / disconnect); must-pass-through and value-flow "
                       "facts for cleanup and reconnect; may-raise analysis with environment raisers for connect / write failures")
    ctx.trusted = ["asyncio.wait_for raises TimeoutError, create_connection raises OSError (library model)", "CPython exception hierarchy"]
    send = ctx.fn(f"{LAN}.send")
    file = send.module.rel
    # ---------------------------------------------------------------- C08.a / C08.b send loop
    loop = find_loop(send, lambda c: attr_call(c, "_protocol", "write"), prog)
    send_owner = getattr(find_loop, "owner", None) or send
    if loop is None:
        ctx.violation("C08.a", send.qual, "LAN.send has no loop that transmits the request", file=file, construct="retry loop")
        return
    ctx.count("loops")
    from ..retry import loop_budget, loop_env
    names = loop_budget(send_owner, loop)
    if len(names) != 1:
        raise AnalysisError(f"{send.qual}: retry loop condition `{norm(loop.test)}` does not test a single counter")
    ctr = names[0]
    OUT = ["TimeoutError", PROTO, "asyncio.CancelledError"]

    def classify(c):
        if attr_call(c, "_protocol", "write"):
            return ("event", "write")
        if attr_call(c, "_disconnect"):
            return ("event", "disconnect")
        if attr_call(c, "_read"):
            return ("oracle", "read", OUT)
        return None
    for R in BUDGETS:
        ex = Explorer(prog, send_owner, classify, {ctr: R})
        paths = ex.run([loop], loop_env(send_owner, loop, ctr, R), ())
        ctx.count("budgets")
        ctx.count("paths", len(paths))
        ws = [p.trace.count("write") for p in paths]
        ctx.ob("C08.a", send.qual, min(ws) >= 1 and max(ws) <= R, f"R={R}: transmissions per exchange ∈ [{min(ws)}, {max(ws)}] ⊆ [1, {R}] over {len(paths)} outcome paths",
               func=send.qual, file=file, construct=f"retry loop, budget {R}",
               fail=f"budget {R}: an exchange can transmit {min(ws)}..{max(ws)} times (allowed 1..{R})")
        for p in paths:
            tr = p.trace
            desc = " ".join(tr)
            if p.kind == "diverge":
                ctx.ob("C08.a", send.qual, False, "", func=send.qual, file=file, construct=f"budget {R}: unbounded loop",
                       fail=f"budget {R}: the loop can repeat without bound (retransmitting forever / never returning) [{desc}]")
                continue
            if "read:ok" in tr:
                after = tr[tr.index("read:ok"):]
                # (when the loop lives in an extracted helper, handing the response back is the helper's `return`)
                done = p.kind == "normal" or (p.kind == "return" and send_owner.qual != send.qual)
                ctx.ob("C08.a", send.qual, "write" not in after and done, f"R={R}: no retransmission after a response [{desc}]",
                       func=send.qual, file=file, construct=f"budget {R}: after response",
                       fail=f"budget {R}: after a response arrived the loop {'retransmits' if 'write' in after else 'does not return the response (' + p.kind + ')'} [{desc}]")
            else:
                # no response on this path: it must end in an exception, after cleanup
                ok = p.kind == "raise"
                ctx.ob("C08.a", send.qual, ok, f"R={R}: a path without a response ends in an exception [{desc}]", func=send.qual, file=file,
                       construct=f"budget {R}: exit without response",
                       fail=f"budget {R}: the loop can end normally without any response and without raising [{desc}]")
                if not ok:
                    continue
                reads = [i for i, x in enumerate(tr) if x.startswith("read:")]
                last = reads[-1] if reads else -1
                ctx.count("failure_exits")
                ctx.ob("C08.b", send.qual, "disconnect" in tr[last + 1:], f"R={R}: failure exit [{desc}] disconnects first", func=send.qual, file=file,
                       construct=f"failure exit via {tr[last] if reads else '?'}",
                       fail=f"budget {R}: the exchange fails ({p.exc.split('.')[-1]}) without _disconnect(): the broken connection is reused by the next exchange [{desc}]")
                allowed = prog.exc_is(p.exc, "TimeoutError") or prog.exc_is(p.exc, PROTO)
                ctx.ob("C08.b", send.qual, allowed, f"R={R}: failure exit raises {p.exc.split('.')[-1]} (timeout / protocol error)", func=send.qual, file=file,
                       construct=f"failure exit class {p.exc.split('.')[-1]}",
                       fail=f"budget {R}: the exchange fails with {p.exc} (cancellation / other) instead of a timeout or protocol error [{desc}]")
                timeouts = [x for x in tr if x == "read:TimeoutError"]
                if len(timeouts) == len(reads) and reads:
                    ctx.ob("C08.a", send.qual, len(timeouts) == R and tr.count("write") == R and prog.exc_is(p.exc, "TimeoutError"),
                           f"R={R}: {R} consecutive timeouts -> TimeoutError after exactly {R} transmissions", func=send.qual, file=file,
                           construct=f"budget {R}: all timeouts",
                           fail=f"budget {R}: with every read timing out the loop transmits {tr.count('write')} times and ends with {p.exc.split('.')[-1]} [{desc}]")
        if R == 2:
            ctx.sample({"budget": R, "paths": [repr(p) for p in paths][:12]})
    ss = summarize(prog, send)
    so = summarize(prog, send_owner)
    from ..helpers import unknown_callee
    # (a transmission: the write itself, or a helper the loop hands the packet to that performs it - not a helper that only cleans up or logs)
    def _transmits(n):
        if attr_call(n, "_protocol", "write"):
            return True
        h_ = unknown_callee(prog, send_owner, n)
        return h_ is not None and contains_call(prog, h_, h_.node, lambda c: attr_call(c, "_protocol", "write"))
    from ..helpers import contains_call
    wcalls = [n for n in ast.walk(loop) if isinstance(n, ast.Call) and _transmits(n)]
    for w in wcalls:
        t = so.ta.terms_at.get(w.args[0]) if w.args else None
        if t is None:
            continue
        same = not any(x[0] == "loopvar" for x in subterms(t)) and (send_owner is not send or any(call_is(x, "msmart.lan._Packet.encode") for x in subterms(t)))
        ctx.ob("C08.a", send.qual, same, "every transmission writes the same encoded packet", func=send.qual, file=file, node=w,
               detail={"argument": show(t)[:120] if t else None}, fail="retransmissions do not write the packet encoded before the loop")

    # ---- authenticate loop
    auth = ctx.fn(f"{LAN}.authenticate")
    aloop = find_loop(auth, lambda c: attr_call(c, "_protocol", "authenticate"), prog)
    auth_owner = getattr(find_loop, "owner", None) or auth
    if aloop is None:
        ctx.violation("C08.a", auth.qual, "LAN.authenticate has no retry loop around the handshake", file=file, construct="retry loop")
    else:
        ctx.count("loops")
        an = loop_budget(auth_owner, aloop)
        if len(an) != 1:
            raise AnalysisError(f"{auth.qual}: retry loop condition `{norm(aloop.test)}` does not test a single counter")

        def aclass(c):
            if attr_call(c, "_protocol", "authenticate"):
                return ("oracle", "handshake", ["TimeoutError", AUTHERR, "asyncio.CancelledError"])
            if attr_call(c, "_disconnect"):
                return ("event", "disconnect")
            return None
        for R in BUDGETS[:3]:
            ex = Explorer(prog, auth_owner, aclass, {an[0]: R})
            paths = ex.run([aloop], loop_env(auth_owner, aloop, an[0], R), ())
            ctx.count("budgets")
            ctx.count("paths", len(paths))
            for p in paths:
                tr = p.trace
                n_att = len([x for x in tr if x.startswith("handshake:")])
                desc = " ".join(tr)
                cancels = [i for i, x in enumerate(tr) if x.startswith("handshake:") and x.endswith("CancelledError")]
                if cancels:
                    # C08.b a handshake abandoned by cancellation has its response still in flight: the connection is not reused.  Left open, the
                    # late response is taken for the answer of the next handshake and that one's own response then fails the next exchange
                    # (`Unexpected handshake response` out of the pre-send drain) although the device answers everything promptly.
                    i_c = cancels[0]
                    ctx.count("cancelled_handshake_exits")
                    ctx.ob("C08.b", auth.qual, p.kind == "raise" and "disconnect" in tr[i_c + 1:] and "handshake:ok" not in tr[i_c + 1:],
                           f"R={R}: a handshake abandoned by cancellation closes the connection before the cancellation propagates [{desc}]",
                           func=auth.qual, file=file, construct=f"handshake loop, budget {R}: cancellation",
                           fail=f"budget {R}: a send / authenticate cancelled between the handshake request and its response leaves the connection open with the "
                                f"response in flight: the next exchange with a promptly answering device fails [{desc}] -> {p.kind} {p.exc or ''}")
                    continue
                ok = 1 <= n_att <= R and p.kind != "diverge"
                if "handshake:ok" in tr:
                    # (leaving through `return` - the loop's function may be a helper of authenticate - is leaving the loop after the success)
                    ok = ok and tr.index("handshake:ok") == max(i for i, x in enumerate(tr) if x.startswith("handshake:")) and p.kind in ("normal", "return")
                else:
                    ok = ok and p.kind == "raise" and (prog.exc_is(p.exc, "TimeoutError") or prog.exc_is(p.exc, PROTO))
                    if all(x == "handshake:TimeoutError" for x in tr if x.startswith("handshake:")):
                        ok = ok and n_att == R and prog.exc_is(p.exc, "TimeoutError")
                ctx.ob("C08.a", auth.qual, ok, f"R={R}: handshake attempts {n_att} ∈ [1,{R}], stops on success, timeouts end in TimeoutError [{desc}]",
                       func=auth.qual, file=file, construct=f"handshake loop, budget {R}: {desc[:60]}",
                       fail=f"budget {R}: handshake retry contract broken on path [{desc}] -> {p.kind} {p.exc or ''}")

    # ---------------------------------------------------------------- C08.b _disconnect / _connect
    dis = ctx.fn(f"{LAN}._disconnect")
    dsum = summarize(prog, dis)
    sp = dis.params[0]
    closes = drops = False
    for _pc, _t, _n, rst in dsum.returns:
        v = rst.env.get(f"{sp}._protocol")
        if v is not None and any(x == ("const", None) for x in subterms(v)):
            drops = True
    closes = any(isinstance(n, ast.Call) and attr_call(n, "_protocol", "disconnect") for n in ast.walk(dis.node)) or \
        any(isinstance(n, ast.Call) and meth_is(t_, "disconnect") and strip(t_[1][1]) == ("attr", ("param", sp), "_protocol") for n, t_ in dsum.ta.terms_at.items())
    ctx.ob("C08.b", dis.qual, closes and drops, "_disconnect closes the protocol and sets self._protocol = None", func=dis.qual, file=file,
           construct="_disconnect body", fail="_disconnect does not both close the transport and drop the protocol object (the next send would reuse it)")
    con = ctx.fn(f"{LAN}._connect")
    csum = summarize(prog, con)
    leak = False
    for pc, exc, node, rst in csum.raises:
        if f"{con.params[0]}._protocol" in rst.env:
            leak = True
    ctx.ob("C08.b", con.qual, not leak, "a failing _connect stores no protocol (self._protocol assigned only after the awaited connect)", func=con.qual,
           file=file, construct="self._protocol store", fail="_connect stores a protocol before the connection is established: a failed connect leaves a dead protocol behind")
    # ---------------------------------------------------------------- C08.c
    R_, _rt = make_raises(prog)
    _ret, esc = R_.analyze(con, {}, self_cls=con.cls)
    bad = [e for e in esc if not (prog.exc_is(str(e), PROTO) or prog.exc_is(str(e), "TimeoutError"))]
    ctx.count("env_raisers", len({(str(e), e.site["construct"]) for e in esc}))
    ctx.ob("C08.c", con.qual, not bad, f"connect failures leave _connect as {sorted({str(e).split('.')[-1] for e in esc})} ⊆ {{ProtocolError, TimeoutError}}",
           func=con.qual, file=file, construct="_connect error mapping", detail={"escapes": sorted({str(e) for e in esc})},
           fail=f"a refused / hanging connect escapes _connect as {sorted({str(e) for e in bad})}: Device._send_command does not handle it")
    w = ctx.fn("msmart.lan._LanProtocol.write")
    wsum = summarize(prog, w)
    guard = False
    for pc, exc, node, _st in wsum.raises:
        if prog.exc_is(exc, PROTO) and any(f == ("un", "not", ("attr", ("param", w.params[0]), "alive")) for f in atoms(pc)):
            guard = True
    ctx.ob("C08.c", w.qual, guard, "write() raises ProtocolError when the transport is closing or closed", func=w.qual, file=file,
           construct="if not self.alive: raise ProtocolError", fail="write() on a closing transport no longer raises ProtocolError (data is silently dropped, the read then times out)")
    al = ctx.fn("msmart.lan._LanProtocol.alive")
    alsum = summarize(prog, al)
    from ..facts import true_facts
    tf = true_facts(alsum)
    ok_alive = bool(tf)
    for fs in tf:
        has_none = any(f[0] == "cmp" and f[1] == "is not" and f[3] == ("const", None) and strip(f[2]) == ("attr", ("param", al.params[0]), "_transport") for f in fs)
        has_closing = any(f[0] == "un" and f[1] == "not" and meth_is(f[2], "is_closing") for f in fs)
        ok_alive = ok_alive and has_none and has_closing
    ctx.ob("C08.c", al.qual, ok_alive, "alive is true only with a transport that is not closing", func=al.qual, file=file, construct="alive",
           fail="`alive` can be true for a missing or closing transport")
    # ---------------------------------------------------------------- C08.d
    sc = ctx.fn("msmart.base_device.Device._send_command")
    _ret, esc = R_.analyze(sc, {}, self_cls=sc.cls)
    esc = [e for e in esc if str(e) != "asyncio.CancelledError"]
    ctx.ob("C08.d", sc.qual, not esc, "neither ProtocolError nor TimeoutError (nor anything else caused by the peer / network) escapes Device._send_command",
           func=sc.qual, file=sc.module.rel, construct="_send_command handlers", detail={"escapes": sorted({str(e) for e in esc})},
           fail=f"{sorted({str(e) for e in esc})} escapes Device._send_command: device-level calls raise instead of reporting 'no response'")
    for pc, t, node, _st in summarize(prog, sc).returns:
        pass
    # reconnect when not alive: must-pass-through before the first write
    from ..helpers import term_lookup, with_helpers, contains_call
    tl = term_lookup(prog, with_helpers(prog, send))

    def on_branch(test, truth, st):
        t = tl(test)
        if t is not None:
            tt = strip(t)
            neg = False
            while tt[0] == "un" and tt[1] == "not":
                tt, neg = strip(tt[2]), not neg
            if tt == ("attr", ("param", send.params[0]), "_alive") and (truth != neg):
                return ["conn_ok"]
        return []

    def on_stmt(node, st):
        if isinstance(node, (ast.If, ast.While, ast.For, ast.AsyncFor, ast.Try, ast.With, ast.AsyncWith)):
            return []          # (the statements inside are visited on their own paths)
        if any(isinstance(c, ast.Call) and attr_call(c, "_connect") for c in ast.walk(node)):
            return ["conn_ok"]
        return []
    ea = EventAnalysis(must=True, on_stmt=on_stmt, on_branch=on_branch)
    run_events(prog, send, ea)
    stmts_with_write = [n for n in ea.at if isinstance(n, ast.stmt) and not isinstance(n, (ast.While, ast.If, ast.Try, ast.For, ast.With, ast.AsyncWith, ast.AsyncFor)) and
                        any(isinstance(c, ast.Call) and attr_call(c, "_protocol", "write") for c in ast.walk(n))]
    for n in stmts_with_write:
        ctx.ob("C08.d", send.qual, "conn_ok" in ea.at[n], "every transmission is preceded by `_alive` being true or a fresh _connect()", func=send.qual,
               file=file, node=n, fail="send() can write without having checked the connection / reconnected: after a failed exchange the next one fails too")
    # the same before a handshake: LAN.authenticate offers it on a connection it found alive, or on a fresh one
    la_ = ctx.fn(f"{LAN}.authenticate")
    tl2 = term_lookup(prog, with_helpers(prog, la_))
    from ..facts import alternatives as _alts
    alive_t = ("attr", ("param", la_.params[0]), "_alive")

    def on_branch2(test, truth, st):
        if getattr(ea2, "in_assert", False):
            return []
        t = tl2(test)
        if t is None:
            return []
        alts = _alts(strip(t), truth)

        def is_v3(a):
            a = strip(a)
            return call_is(a, "isinstance") and strip(a[2][0]) == ("attr", ("param", la_.params[0]), "_protocol") and strip(a[2][1]) == ("global", "msmart.lan._LanProtocolV3")
        if alts and all(any(strip(a) == alive_t for a in alt) and any(is_v3(a) for a in alt) for alt in alts):
            return ["conn_ok"]          # found alive *and* speaking V3: no reconnect needed
        return []
    ea2 = EventAnalysis(must=True, on_stmt=on_stmt, on_branch=on_branch2)
    run_events(prog, la_, ea2)
    hs_stmts = [n for n in ea2.at if isinstance(n, ast.stmt) and not isinstance(n, (ast.While, ast.If, ast.Try, ast.For, ast.With, ast.AsyncWith, ast.AsyncFor)) and
                any(isinstance(c, ast.Call) and attr_call(c, "_protocol", "authenticate") for c in ast.walk(n))]
    ctx.count("handshake_sites", len(hs_stmts))
    for n in hs_stmts:
        ctx.ob("C08.d", la_.qual, "conn_ok" in ea2.at[n], "every handshake is preceded by finding an alive V3 connection or by a fresh _connect()", func=la_.qual, file=file, node=n,
               fail="authenticate() can offer the handshake on a connection it has not found alive (no reconnect): after a failed exchange the re-authentication fails too")
    alv = ctx.fn(f"{LAN}._alive")
    asum = summarize(prog, alv)
    tf = true_facts(asum)
    ok_a = bool(tf)
    for fs in tf:
        # (`is not None`, or plain truthiness: a protocol object defines neither __bool__ nor __len__)
        ok_a = ok_a and any((f[0] == "cmp" and f[1] == "is not" and f[3] == ("const", None) and strip(f[2]) == ("attr", ("param", alv.params[0]), "_protocol")) or
                            strip(f) == ("attr", ("param", alv.params[0]), "_protocol") for f in fs) \
            and any(strip(f) == ("attr", ("attr", ("param", alv.params[0]), "_protocol"), "alive") for f in fs)
    ctx.ob("C08.d", alv.qual, ok_a, "_alive is true only with an existing, alive protocol", func=alv.qual, file=file, construct="_alive",
           fail="_alive can be true without a protocol / with a dead one: send() would not reconnect")
    # ---- C08.d after a failed exchange the connection object is gone (self._protocol = None): nothing may touch it before the None test /
    # the reconnect - an AttributeError there is raised by every later exchange, and recovery never happens
    from ..shared import unguarded_optional_uses
    lan_cls = prog.cls(LAN)
    bare = unguarded_optional_uses(prog, lan_cls, "_protocol")
    ctx.count("protocol_uses_checked", 1)
    ctx.ob("C08.d", LAN, not bare, "every use of self._protocol.<x> in LAN is preceded by a test (or assertion) that a protocol exists", func=LAN, file=file,
           construct="self._protocol uses") if not bare else None
    for q_, n_ in bare:
        ctx.ob("C08.d", q_, False, "", func=q_, file=file, node=n_,
               fail=f"`{norm(n_)}` is evaluated where self._protocol can be None (after a failed exchange it is): AttributeError instead of a reconnect")
    # ---- C08.t4 "retransmission stops as soon as a response arrives" / "the next exchange succeeds" need every response that arrives -
    # after garbage, split or coalesced - to be delivered: the reassembly premises of C04 are re-run here, not assumed
    from . import c04
    ctx.import_rules(c04, "t4")
    # ---- C08.t7 "... including re-authentication on V3": that a send on a V3 connection without a completed handshake authenticates first
    # (and what `authenticated` means) is C07's session discipline, re-run here as a premise
    from . import c07
    ctx.import_rules(c07, "t7")
    # ---- C08.f recovery "including re-authentication on V3" uses the cached credentials: once the handshake has succeeded they are cached in the
    # same atomic section - no suspension point (cancellation point) between the successful `_protocol.authenticate` and the stores of
    # _token / _key.  A caller's timeout that lands in such a window leaves a session that works until the connection drops and then cannot
    # be re-established without the user.
    from ..atomic import sections, self_call, simple, stores_self_attr
    sec = sections(prog, la_, lambda n: simple(n) and self_call(n, "_protocol", "authenticate"), lambda n: stores_self_attr(n, ("_token", "_key")))
    ctx.count("credential_store_sites", len(sec))
    for n_, dirty in sec.items():
        ctx.ob("C08.f", la_.qual, not dirty, "the credentials are cached in the atomic section in which the handshake succeeded (no cancellation point in between)",
               func=la_.qual, file=file, node=n_, detail={"suspension_points": dirty},
               fail=f"`{norm(n_)[:50]}` runs only after `{dirty[0] if dirty else ''}`: a cancellation / caller timeout there leaves an authenticated session whose "
                    "credentials were never cached - after the next connection loss every exchange fails with 'Token and key must be supplied'")
    ctx.require_min("credential_store_sites", 1)
    # ---- C08.g "... including re-authentication on V3": a connection that has already negotiated a key is re-keyed in place (12 h expiry, an
    # explicit authenticate()), so the response to a *pending* handshake is accepted whatever session state the connection holds - the only
    # instance state the acceptance may depend on is the pending flag itself.  A guard that also wants `_local_key is None` refuses every
    # re-handshake; authentication errors do not disconnect, so every later exchange on that connection fails the same way.
    ppk = prog.funcs.get("msmart.lan._LanProtocolV3._process_packet")
    if ppk is not None:
        from ..ctor import init_attrs
        try:
            state_attrs = set(init_attrs(prog, ppk.cls))
        except AnalysisError:
            state_attrs = set()
        n_hs = 0
        for pc_, t_, n_, _st in summarize(prog, ppk).returns:
            if n_ is None or not any(call_is(x, "msmart.lan._LanProtocolV3._decode_handshake_response") for x in subterms(t_)):
                continue
            n_hs += 1
            extra = sorted({x[2] for a_ in atoms(pc_) for x in subterms(a_)
                            if x[0] == "attr" and x[1] == ("param", ppk.params[0]) and x[2] in state_attrs and x[2] != "_handshake_pending"})
            ctx.ob("C08.g", ppk.qual, not extra, "the response to a pending handshake is accepted whatever session state the connection holds (re-keying in place)",
                   func=ppk.qual, file=file, node=n_, detail={"also_depends_on": extra},
                   fail=f"a pending handshake's response is only accepted depending on {', '.join('self.' + x for x in extra)}: a re-handshake on a connection that "
                        "already holds a key (12 h expiry, explicit authenticate) is refused, and every later exchange on that connection fails the same way")
        ctx.count("handshake_accept_paths", n_hs)
    # ---- C08.e every read of the exchange is bounded by its timeout: the wait on the receive queue is a wait_for with the caller's timeout,
    # and a timeout of that wait reaches the retry loop as a timeout (nothing between the wait and LAN.send swallows it or waits again)
    from ..helpers import with_helpers
    V2Q, V3Q = "msmart.lan._LanProtocol", "msmart.lan._LanProtocolV3"
    chain_fns = {}
    for q0 in (f"{LAN}._read", f"{V2Q}.read", f"{V3Q}.read", f"{V2Q}._read_queue"):
        f0 = prog.funcs.get(q0)
        if f0 is None:
            continue
        for f2 in with_helpers(prog, f0):
            chain_fns[f2.qual] = f2
    TO_NAMES = {"TimeoutError", "asyncio.TimeoutError", "asyncio.exceptions.TimeoutError", "OSError", "Exception", "BaseException"}

    def always_raises_timeout(body, hname):
        """every way through the statement list ends in a raise of the caught timeout (bare / the handler's name) or of a TimeoutError"""
        if not body:
            return False
        last = body[-1]
        if any(isinstance(x, (ast.Return, ast.Continue, ast.Break)) for st_ in body[:-1] for x in ast.walk(st_)):
            return False
        if isinstance(last, ast.Raise):
            if last.exc is None or (isinstance(last.exc, ast.Name) and last.exc.id == hname):
                return True
            tgt = last.exc.func if isinstance(last.exc, ast.Call) else last.exc
            return norm(tgt) in ("TimeoutError", "asyncio.TimeoutError")
        if isinstance(last, ast.If):
            return always_raises_timeout(last.body, hname) and bool(last.orelse) and always_raises_timeout(last.orelse, hname)
        return False
    n_waits = 0
    for q_, f2 in sorted(chain_fns.items()):
        par_ = {}
        for n in ast.walk(f2.node):
            for c in ast.iter_child_nodes(n):
                par_[c] = n
        for n in ast.walk(f2.node):
            if not (isinstance(n, ast.Call) and isinstance(n.func, ast.Attribute) and n.func.attr == "get" and isinstance(n.func.value, ast.Attribute)
                    and n.func.value.attr == "_queue"):
                continue
            n_waits += 1
            w = par_.get(n)
            bounded = isinstance(w, ast.Call) and norm(w.func) in ("asyncio.wait_for", "wait_for") and (
                len(w.args) >= 2 or any(k.arg == "timeout" for k in w.keywords))
            if bounded:
                tv = w.args[1] if len(w.args) >= 2 else next(k.value for k in w.keywords if k.arg == "timeout")
                bounded = not (isinstance(tv, ast.Constant) and tv.value is None)
            ctx.ob("C08.e", q_, bounded, "the blocking wait on the receive queue is an asyncio.wait_for with a timeout", func=q_, file=f2.module.rel, node=n,
                   fail="the receive queue is awaited without a timeout: a silent device hangs the exchange instead of timing out")
            x = n
            while x in par_:
                p_ = par_[x]
                if isinstance(p_, ast.Try) and any(x is b for b in p_.body):
                    for h in p_.handlers:
                        names = {norm(e_) for e_ in (h.type.elts if isinstance(h.type, ast.Tuple) else [h.type])} if h.type is not None else {"BaseException"}
                        if names & TO_NAMES:
                            ctx.ob("C08.e", q_, always_raises_timeout(h.body, h.name), "a handler around the wait passes the timeout on (re-raises it on every path)",
                                   func=q_, file=f2.module.rel, node=h,
                                   fail="a timeout of the read is swallowed / waited out again below the retry loop: no retransmission, no TimeoutError after `retries` attempts")
                x = p_
    ctx.count("queue_waits", n_waits)
    ctx.require_min("queue_waits", 1)
    ctx.require_min("loops", 2)
    ctx.require_min("budgets", 7)
    ctx.require_min("failure_exits", 3)
    ctx.require_min("cancelled_handshake_exits", 3)
    ctx.require_min("env_raisers", 1)
