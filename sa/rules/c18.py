"""C18 - discovery: one device per host; bad responders cannot spoil the rest.

  C18.a  de-duplication: in datagram_received every path that creates a task has passed a "source address not yet
         seen" test on the address component of `addr` (first element, not the port, not the payload) and adds
         that address to the same set; at most one create_task per call; discover() gathers exactly that task set
  C18.b  per-host containment (E4): taint = the datagram bytes; boundaries = datagram_received itself and the
         coroutine given to create_task up to (not including) the optional connect step; allowed set = {} because
         gather() without return_exceptions re-raises the first task exception out of discover()
  C18.c  no shared per-host state: the per-host coroutine stores to no class / protocol attribute before the connect
         step (so arrival order cannot matter)
"""
from __future__ import annotations

import ast

from ..facts import cases, atoms, call_is, meth_is, strip
from ..model import is_self_attr, norm
from ..raises import Config, Raises, Val
from ..terms import show, subterms, summarize

DG = "msmart.discover._DiscoverProtocol.datagram_received"
GETDEV = "msmart.discover.Discover._get_device"
CONNECT = "msmart.discover.Discover.connect"
DISCOVER = "msmart.discover.Discover.discover"


def addr_component(t, addr_param="addr"):
    """0 / 1 if t is the first / second component of the addr parameter, else None."""
    t = strip(t)
    if t[0] == "item" and t[1] == ("param", addr_param):
        return t[2]
    if t[0] == "sub" and t[1] == ("param", addr_param) and t[2][0] == "const":
        return t[2][1]
    return None


def per_run_state(ctx, rule):
    prog = ctx.prog
    dp = prog.cls("msmart.discover._DiscoverProtocol")
    ini = dp.methods.get("__init__")
    dg = prog.func(DG)
    s = summarize(prog, dg)
    sp = dg.params[0]
    used = set()
    for _pc, _t, _n, rst in s.returns:
        for k, v in rst.env.items():
            if k.startswith(sp + ".") and v[0] == "mut":
                used.add(k.split(".", 1)[1])
    for attr in sorted(used):
        fresh = False
        if ini is not None:
            for n in ast.walk(ini.node):
                if isinstance(n, (ast.Assign, ast.AnnAssign)):
                    tg = n.targets if isinstance(n, ast.Assign) else [n.target]
                    if any(is_self_attr(t, attr) for t in tg) and n.value is not None and isinstance(n.value, ast.Call) and norm(n.value.func) in ("set", "list", "dict"):
                        fresh = True
        class_level = any(attr in k.attrs for k in prog.mro(dp)) or any(
            isinstance(st, ast.AnnAssign) and isinstance(st.target, ast.Name) and st.target.id == attr and st.value is not None for st in dp.node.body)
        ctx.count("per_run_attrs")
        ctx.ob(rule, dp.qual, fresh and not class_level, f"self.{attr} is created fresh in __init__ for every discovery run", func=dp.qual, file=dp.module.rel,
               construct=f"{attr} initialisation",
               fail=f"{attr} is shared between discovery runs (class-level / not re-created in __init__): a later run drops every host an earlier run has seen")


def run(ctx):
    prog = ctx.prog
    ctx.explanation = ("path conditions / value-flow terms of datagram_received for the de-duplication rule; interprocedural may-raise "
                       "analysis (taint = datagram bytes, environment raisers included) of datagram_received and the per-host task "
                       "coroutine; who-writes scan for shared state")
    ctx.trusted = ["library model (sa/libmodel.py)", "asyncio.gather without return_exceptions re-raises the first task exception"]
    fn = ctx.fn(DG)
    file = fn.module.rel
    s = summarize(prog, fn)
    # ---- C18.a ---------------------------------------------------------------------
    # create_task call sites - in the callback or in helpers it calls that the rules do not know - with the state before the
    # callback's own statement that reaches them, and whether a loop encloses them anywhere on the way
    from ..helpers import ancestor_chains, term_lookup
    tl = term_lookup(prog, fn)
    creates = []
    root_nodes = {id(n) for n in ast.walk(fn.node)}
    sites = ancestor_chains(prog, fn, lambda f_, n: tl(n) is not None and call_is(tl(n), "asyncio.create_task", "asyncio.ensure_future"))
    for _f, call, chains in sites:
        for chain in chains:
            nodes = [x for x, _fld in chain]
            stmt_node = next((x for x in nodes if id(x) in root_nodes and isinstance(x, ast.stmt) and x in s.ta.env_at
                              and not isinstance(x, (ast.If, ast.For, ast.While, ast.Try, ast.With, ast.FunctionDef, ast.AsyncFunctionDef))), None)
            if stmt_node is None:
                continue
            creates.append((stmt_node, call, s.ta.env_at[stmt_node], any(isinstance(x, (ast.For, ast.While, ast.AsyncFor)) for x in nodes)))
    params = fn.params
    addr_p = params[2] if len(params) > 2 else "addr"
    for stmt_node, call, st, _in_loop in creates:
        ctx.count("create_task_sites")
        facts = atoms(st.pc)
        seen_set = None
        key_ok = True
        # (every case of the path condition: a seen-test inside an inlined helper arrives as a gated boolean)
        for case in cases(st.pc):
            hit = None
            for f in case:
                if f[0] == "cmp" and f[1] == "not in":
                    comp = addr_component(f[2], addr_p)
                    if comp == 0 and strip(f[3])[0] == "attr" and strip(f[3])[1] == ("param", params[0]):
                        hit = strip(f[3])
            if hit is None:
                key_ok = False
            else:
                seen_set = hit
        key_ok = key_ok and seen_set is not None
        ctx.ob("C18.a", DG, key_ok, "task creation is dominated by `source address not in <seen set>` on the address component of addr",
               func=DG, file=file, node=stmt_node, detail={"path_facts": [show(f) for f in facts]},
               fail="a task can be created for a datagram whose source address was not tested against the seen set "
                    "(de-duplication missing or keyed on something else than the source address)")
        if key_ok:
            # the same address is added to the same set on this path (before or after: not observable inside one callback)
            attr = seen_set[2]
            end_states = [rst for _pc, _t, _n, rst in s.returns]
            added_everywhere = True
            for n2, st2 in s.ta.env_at.items():
                pass
            # the value of the set attribute at the end of every path that passed the create site
            adds_ok = False
            for _pc, _t, _n, rst in s.returns:
                if not any(c is call for c in [call]):
                    continue
                v = rst.env.get(f"{params[0]}.{attr}")
                if v is None:
                    continue
                for x in subterms(v):
                    if ((x[0] == "mut" and x[1] == "add" and addr_component(x[3][0], addr_p) == 0) or (x[0] == "store" and addr_component(x[2], addr_p) == 0)):
                        adds_ok = True
            # paths that create a task: their final state must contain the add
            creating_paths = [rst for _pc, _t, _n, rst in s.returns if any(
                y[0] == "call" and call_is(y, "asyncio.create_task", "asyncio.ensure_future") for v in rst.env.values() for y in subterms(v))]
            for rst in creating_paths:
                v = rst.env.get(f"{params[0]}.{attr}", ("top", "?"))
                has = any(((x[0] == "mut" and x[1] == "add" and addr_component(x[3][0], addr_p) == 0) or (x[0] == "store" and addr_component(x[2], addr_p) == 0)) for x in subterms(v))
                added_everywhere = added_everywhere and has
            ctx.ob("C18.a", DG, bool(creating_paths) and added_everywhere,
                   f"every path that creates a task adds the source address to self.{attr}",
                   func=DG, file=file, node=stmt_node,
                   fail=f"a path creates a task without recording the source address in self.{attr}: duplicates spawn more devices")
            ctx.sample({"site": norm(stmt_node)[:100], "dominating_fact": f"addr[0] not in self.{attr}", "adds": "self.%s.add(addr[0])" % attr})
    # at most one create_task per call: no create site inside a loop, and sites are on exclusive paths
    par = {}
    for n in ast.walk(fn.node):
        for c in ast.iter_child_nodes(n):
            par[c] = n
    for stmt_node, call, st, in_loop in creates:
        ctx.ob("C18.a", DG, not in_loop, "create_task is not inside a loop (exactly one task per new address)", func=DG, file=file, node=stmt_node,
               fail="create_task inside a loop: several tasks per datagram")
    ctx.ob("C18.a", DG, len(creates) <= 1, "a single create_task site", func=DG, file=file, construct="create_task sites",
           fail=f"{len(creates)} create_task sites in datagram_received") if len(creates) != 1 else None
    # discover gathers protocol.tasks and the created task is added to self.tasks
    d = ctx.fn(DISCOVER)
    ds = summarize(prog, d)
    gathers = [t for n, t in ds.ta.terms_at.items() if isinstance(n, ast.Call) and call_is(t, "asyncio.gather")]
    g_ok = any(any(x[0] == "attr" and x[2] == "tasks" for x in subterms(g)) for g in gathers)
    ctx.ob("C18.a", DISCOVER, g_ok, "discover() gathers the protocol's task set", func=DISCOVER, file=d.module.rel, construct="asyncio.gather(*protocol.tasks)",
           fail="discover() does not gather protocol.tasks")
    # ... of a protocol that accepts no more replies: the listening socket is closed before the task set is handed to gather.  A gather that sits
    # inside the construct that closes the transport on exit (the `try` whose `finally` closes it, a `with closing(transport)`) runs while
    # datagram_received still creates tasks - a host accepted in that window is connected to but missing from the result
    par_d = {}
    for n in ast.walk(d.node):
        for c in ast.iter_child_nodes(n):
            par_d[c] = n

    def _closes(stmts):
        return any(isinstance(c, ast.Call) and isinstance(c.func, ast.Attribute) and c.func.attr in ("close", "abort") for st_ in stmts for c in ast.walk(st_))
    for gn in [n for n in ast.walk(d.node) if isinstance(n, ast.Call) and ds.ta.terms_at.get(n) is not None and call_is(ds.ta.terms_at[n], "asyncio.gather")]:
        inside, x = None, gn
        while x in par_d:
            p_ = par_d[x]
            if isinstance(p_, ast.Try) and any(x is b for b in p_.body) and p_.finalbody and _closes(p_.finalbody):
                inside = p_
            if isinstance(p_, (ast.With, ast.AsyncWith)) and any(isinstance(it.context_expr, ast.Call) and norm(it.context_expr.func).split(".")[-1] in ("closing", "aclosing")
                                                               for it in p_.items) and any(x is b for b in p_.body):
                inside = p_
            x = p_
        ctx.ob("C18.a", DISCOVER, inside is None, "the task set is gathered after the listening socket was closed (no reply is accepted once the set has been handed to gather)",
               func=DISCOVER, file=d.module.rel, node=gn,
               fail="the tasks are gathered while the transport is still open (the close sits in the finally / with-exit around the gather): a host whose first "
                    "reply arrives while an earlier device is still being connected is accepted but not reported")
    # ... and reports nothing but what that one gather returned (entries removed, never added): a second source of devices (a list filled
    # by done-callbacks, results kept from an earlier run) lets one host appear twice
    def result_sources(t, depth=0):
        t = strip(t)
        if depth > 12 or not isinstance(t, tuple) or not t:
            return ["?"]
        if t[0] == "bin" and t[1] == "+":
            return result_sources(t[2], depth + 1) + result_sources(t[3], depth + 1)
        if t[0] in ("list", "tuple"):
            out = []
            for it in t[1]:
                out += result_sources(it[1], depth + 1) if it[0] == "starred" else ["?"]
            return out
        if t[0] == "comp" and len(t[3]) == 1:
            return result_sources(t[3][0][1], depth + 1)
        if t[0] == "call" and t[1][0] == "ext" and t[1][1] in ("list", "tuple", "filter", "sorted") and t[2]:
            return result_sources(t[2][-1], depth + 1)
        if t[0] == "await":
            return result_sources(t[1], depth + 1)
        if call_is(t, "asyncio.gather"):
            # ... over every recorded task: gather(*<protocol>.tasks), possibly through a copy of the set
            if len(t[2]) == 1 and t[2][0][0] == "starred":
                a_ = strip(t[2][0][1])
                while call_is(a_, "list", "tuple", "set", "frozenset", "sorted") and len(a_[2]) == 1:
                    a_ = strip(a_[2][0])
                if a_[0] == "attr" and a_[2] == "tasks":
                    return ["gather"]
            return [f"gather over {show(t)[:60]}"]
        if t[0] == "ite":
            return sorted(set(result_sources(t[2], depth + 1) + result_sources(t[3], depth + 1)))
        return [show(t)[:60]]
    for _pc, t_, n_, _st in ds.returns:
        if n_ is None:
            continue
        srcs_ = result_sources(t_)
        ctx.ob("C18.a", DISCOVER, srcs_ == ["gather"], "the devices returned are exactly the results of that one gather (None entries dropped)", func=DISCOVER,
               file=d.module.rel, node=n_, detail={"sources": srcs_},
               fail=f"discover() builds its result from {srcs_}: devices from another source than the one gather can be reported twice")
    removers = [(f.qual, n) for f in prog.all_functions() if f.module.name == "msmart.discover" for n in ast.walk(f.node)
                if isinstance(n, ast.Attribute) and n.attr in ("discard", "remove", "pop", "clear", "difference_update", "intersection_update", "symmetric_difference_update")
                and isinstance(n.value, ast.Attribute) and n.value.attr == "tasks"]      # called, or handed out as a callback
    ctx.ob("C18.a", DG, not removers, "no task is taken out of the task set before it was gathered", func=DG, file=file, construct="self.tasks removals",
           node=removers[0][1] if removers else None, fail="tasks are removed from the task set outside discover(): their devices are lost or reported through another path")
    for _pc, _t, _n, rst in s.returns:
        pass
    tasks_added = any(any(x[0] == "mut" and x[1] == "add" and any(call_is(y, "asyncio.create_task", "asyncio.ensure_future") for y in subterms(x[3][0]))
                          for x in subterms(rst.env.get(f"{params[0]}.tasks", ("top", "?"))))
                      for _pc, _t, _n, rst in s.returns)
    ctx.ob("C18.a", DG, tasks_added, "the created task is added to self.tasks", func=DG, file=file, construct="self.tasks.add(task)",
           fail="the created task never reaches self.tasks: its device is not reported")

    # the seen set and the task set are fresh per discovery run (instance attributes created in __init__)
    per_run_state(ctx, "C18.a")
    # nothing cancels a recorded task: a cancelled per-host task makes the gather - and with it the whole run - fail with CancelledError
    dpc = prog.cls("msmart.discover._DiscoverProtocol")
    cancels = [(m_, n_) for m_ in dpc.methods.values() for n_ in ast.walk(m_.node)
               if isinstance(n_, ast.Call) and isinstance(n_.func, ast.Attribute) and n_.func.attr == "cancel"]
    ctx.ob("C18.a", dpc.qual, not cancels, "the discovery protocol cancels none of the per-host tasks it recorded", func=cancels[0][0].qual if cancels else dpc.qual, file=dpc.module.rel,
           node=cancels[0][1] if cancels else None, construct="task.cancel()",
           fail=(f"{cancels[0][0].qual} cancels recorded tasks: discover() gathers them afterwards and fails with CancelledError instead of reporting the hosts that answered") if cancels else "")
    # ---- C18.b ---------------------------------------------------------------------
    R = Raises(prog, Config(env=True, stop_at=[CONNECT]))
    data = Val(taint=True, kind="bytes")
    seen = set()
    # (arguments by position - datagram_received(self, data, addr) is asyncio's signature, _get_device(cls, ip, version, data) the task's -
    # whatever the parameters are called)
    for q, args, label in ((DG, [data, Val(kind="list")], "datagram_received"),
                           (GETDEV, [Val(kind="str"), Val(kind="int"), data], "the per-host task (before connect)")):
        f = ctx.fn(q)
        pnames = f.params[1:] if f.kind in ("method", "classmethod", "property", "setter") else f.params
        a = {k: v for k, v in zip(pnames, args)}
        _ret, esc = R.analyze(f, a, self_cls=f.cls)
        ctx.count("boundaries")
        bad = [e for e in esc if str(e) != "asyncio.CancelledError"]
        if not bad:
            ctx.ob("C18.b", q, True, f"no exception caused by the reply's content (or by the host's behaviour) escapes {label}")
        for e in bad:
            k = (str(e), e.site["function"], e.site["construct"])
            if k in seen:
                continue
            seen.add(k)
            ctx.ob("C18.b", e.site["function"], False, "", func=e.site["function"], file=e.site["file"],
                   construct=f"{e.site['construct']} -> {e}",
                   fail=f"{e} can escape {label} and abort discover() for every host [{e.why}] via "
                        f"{' -> '.join(x.split('.')[-1] for x in e.chain)}",
                   detail={"exception": str(e), "site": e.site, "chain": list(e.chain), "why": e.why})
    for key, rec in sorted(R.sites_examined.items()):
        ctx.count("raiser_sites")
        flagged = any(k[1] == rec["function"] and k[2][:120] == rec["construct"] and k[0] == rec["exc"] for k in seen)
        ctx.obligations.append({"rule": "C18.b/site", "site": rec["function"], "verdict": "VIOLATED" if flagged else "holds",
                                "what": (f"`{rec['construct']}` cannot raise {rec['exc']}: {rec['fact']}" if rec["verdict"] == "proved-safe"
                                         else f"`{rec['construct']}` may raise {rec['exc']} ({rec['fact']}); contained below the boundary")})
    for a_ in R.assumptions:
        ctx.assume(a_)
    for q in sorted(R.functions_seen):
        if q not in ctx.analysed["functions"]:
            ctx.analysed["functions"].append(q)

    # ---- C18.c ---------------------------------------------------------------------
    for q in (GETDEV, "msmart.discover.Discover._get_device_info", "msmart.discover.Discover._get_device_class",
              "msmart.discover.Discover._get_device_version"):
        f = ctx.fn(q)
        recv = f.params[0] if f.params else "cls"
        writes = [n for n in ast.walk(f.node) if isinstance(n, (ast.Assign, ast.AugAssign, ast.AnnAssign))
                  for t in (n.targets if isinstance(n, ast.Assign) else [n.target])
                  if isinstance(t, ast.Attribute) and isinstance(t.value, ast.Name) and t.value.id in (recv, "Discover")]
        # ... nor into one: cls.table[key] = ..., cls.table.update / setdefault / append / add(...)
        def shared_base(e):
            while isinstance(e, ast.Subscript):
                e = e.value
            return isinstance(e, ast.Attribute) and isinstance(e.value, ast.Name) and e.value.id in (recv, "Discover")
        writes += [n for n in ast.walk(f.node) if isinstance(n, (ast.Assign, ast.AugAssign, ast.AnnAssign))
                   for t in (n.targets if isinstance(n, ast.Assign) else [n.target]) if isinstance(t, ast.Subscript) and shared_base(t)]
        writes += [n for n in ast.walk(f.node) if isinstance(n, ast.Call) and isinstance(n.func, ast.Attribute)
                   and n.func.attr in ("update", "setdefault", "append", "add", "extend", "insert", "pop", "clear", "remove", "discard", "popitem")
                   and shared_base(n.func.value)]
        ctx.count("shared_state_scans")
        ctx.ob("C18.c", q, not writes, "the per-host parse path stores to no class attribute (hosts share no state)", func=q, file=f.module.rel,
               node=writes[0] if writes else None, fail="per-host coroutine writes shared class state: results depend on arrival order")
    # ---- C18.a "exactly once per responding host": the host a device stands for is the address its reply came from (C17.b's obligation,
    # re-run here: reporting the address written inside the reply lets two hosts collapse into one, or one host appear under another's)
    from .c17 import reported_ip_is_source
    reported_ip_is_source(ctx, "C18.a")
    # the set of hosts already seen belongs to one discovery run: created in __init__, not one class-level object (whatever function of the
    # protocol updates it)
    per_run_state(ctx, "C18.a")
    from ..shared import check as shared_check
    shared_check(ctx, "C18.a", [prog.cls("msmart.discover._DiscoverProtocol")], "the discovery protocol")
    ctx.require_min("create_task_sites", 1)
    ctx.require_min("boundaries", 2)
    ctx.require_min("raiser_sites", 8)
    ctx.require_min("shared_state_scans", 4)
