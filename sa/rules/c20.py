"""C20 - CLI control applies the documented meaning of each setting=value pair.

  C20.a  reject before I/O: the whole settings-parsing loop (with every exit it can reach) precedes the first call that
         can reach the network (_connect / refresh / get_capabilities / toggle_display / apply); every exit(...) in
         _control, _connect and the converter has a non-zero constant argument
  C20.b  classification: conversion is reached only for a name that is a `property` of AirConditioner and that has a
         setter (except the display key); the conversion type is the type of the attribute's default on a fresh instance
  C20.c  every writable setting is convertible: for each public property of AirConditioner with a setter (plus
         display_on) the default set in __init__ is an enum member, a bool, an int or a float - never None
  C20.d  conversions (decision tree of the stored value): enum branch: numeric literal -> member by value, raw integer
         only for FanSpeed; otherwise member by upper-cased name (and all member names are upper-case, so that is exactly
         case-insensitivity); bool branch: capitalised literal through bool; numeric branch: literal through the
         default's type; failures exit non-zero    [partly idiom-pinned: .upper() / .capitalize(), see DESIGN.md]
  C20.e  run semantics: refresh precedes every setattr; the display key is removed before the setattr loop and toggled
         iff it differs from the refreshed display_on; apply follows the setattrs and is skipped when nothing else is
         pending; only names given on the command line are set; manual connect uses port 6444
"""
from __future__ import annotations

import ast

from ..absint import EventAnalysis, run_events
from ..ctor import init_attrs
from ..facts import atoms, call_is, cases, meth_is, oriented, strip
from ..model import AnalysisError, norm
from ..terms import is_const, show, subterms, summarize

CLI = "msmart.cli"
AC = "msmart.device.AC.device.AirConditioner"
IO_CALLS = {"_connect", "refresh", "get_capabilities", "toggle_display", "apply", "authenticate", "discover_single", "discover"}


def ite_leaves(t, conds=()):
    t0 = t
    if t0[0] == "ite":
        yield from ite_leaves(t0[2], conds + ((t0[1], True),))
        yield from ite_leaves(t0[3], conds + ((t0[1], False),))
    else:
        yield conds, t0


def is_io_call(c: ast.Call) -> bool:
    f = c.func
    name = f.attr if isinstance(f, ast.Attribute) else (f.id if isinstance(f, ast.Name) else None)
    return name in IO_CALLS



def _fresh_instance(prog, fn, t, depth=0):
    """t is an AirConditioner constructed here and only read: AC(...) itself, or a template built on first use and kept for the following
    settings (`None` before the loop, `AC(...)` stored when it is None, otherwise the value carried around the loop)"""
    t = strip(t)
    if call_is(t, AC):
        return True
    if depth > 4:
        return False
    if t[0] == "ite":
        return _fresh_instance(prog, fn, t[2], depth + 1) and _fresh_instance(prog, fn, t[3], depth + 1)
    if t[0] == "loopvar":
        s_ = summarize(prog, fn)
        for ln, info in s_.loops.items():
            if getattr(ln, "lineno", None) != t[2]:
                continue
            before = info["entry"].env.get(t[1])
            carried = [st_.env.get(t[1]) for st_ in info["ends"] + info["continues"]]
            return before is not None and strip(before) == ("const", None) and bool(carried) and \
                all(c is not None and (strip(c) == t or _fresh_instance(prog, fn, c, depth + 1)) for c in carried)
    return False

def run(ctx):
    from .. import terms as _terms
    saved = _terms.OPTIONS["gate_last"]
    _terms.OPTIONS["gate_last"] = True          # the conversion decisions are read off the gates of the stored value, helpers included
    try:
        return _run(ctx)
    finally:
        _terms.OPTIONS["gate_last"] = saved


def _run(ctx):
    prog = ctx.prog
    ctx.explanation = ("may/must event analysis of _control (parsing loop vs. first network call, refresh/setattr/apply order); path facts at the "
                       "conversion; decision tree of the stored value read off the value-flow term; inventory of AirConditioner's writable "
                       "properties and their constructor defaults")
    ctx.trusted = ["argparse behaviour and README prose beyond the listed clauses are not decided", "getattr/setattr/property semantics of CPython"]
    fn = ctx.fn(f"{CLI}._control")
    file = fn.module.rel
    s = summarize(prog, fn)
    args_p = fn.params[0]
    from ..helpers import with_helpers, unknown_callee
    # the function that parses the settings: _control itself, or a helper the rules do not know that _control hands args.settings to
    pf, ps, sl, pcall = fn, s, None, None
    for l in [n for n in ast.walk(fn.node) if isinstance(n, ast.For) and n in s.loops]:
        it = s.ta.terms_at.get(l.iter)
        if it is not None and any(x == ("attr", ("param", args_p), "settings") for x in subterms(it)):
            sl = l
    if sl is None:
        for c in [n for n in ast.walk(fn.node) if isinstance(n, ast.Call)]:
            f2 = unknown_callee(prog, fn, c)
            tc = s.ta.terms_at.get(c)
            if f2 is None or f2.is_async:
                continue
            passed = [p_.arg for p_, a_ in zip(f2.node.args.args, c.args) if s.ta.terms_at.get(a_) is not None
                      and strip(s.ta.terms_at[a_]) in (("attr", ("param", args_p), "settings"), ("param", args_p))]
            if not passed:
                continue
            s2 = summarize(prog, f2)
            for l in [n for n in ast.walk(f2.node) if isinstance(n, ast.For) and n in s2.loops]:
                it = s2.ta.terms_at.get(l.iter)
                if it is not None and any(x in [("param", p_) for p_ in passed] or (x[0] == "attr" and x[1] in [("param", p_) for p_ in passed] and x[2] == "settings")
                                          for x in subterms(it)):
                    pf, ps, sl, pcall = f2, s2, l, c
    if sl is None:
        raise AnalysisError(f"{fn.qual}: the loop over args.settings was not found")
    ctx.count("settings_loops")
    # ---------------------------------------------------------------- C20.a
    def on_stmt(node, st):
        if isinstance(node, (ast.FunctionDef, ast.AsyncFunctionDef)):
            return []
        if any(isinstance(c, ast.Call) and is_io_call(c) for c in ast.walk(node)):
            return ["io"]
        return []
    ea = EventAnalysis(must=False, on_stmt=on_stmt)
    run_events(prog, fn, ea)
    if pf is fn:
        before_io = "io" not in ea.at.get(sl, frozenset())
    else:
        # the parsing helper is called before any network call, and makes none itself
        par0 = {}
        for n in ast.walk(fn.node):
            for c in ast.iter_child_nodes(n):
                par0[c] = n
        st0 = pcall
        while st0 in par0 and st0 not in ea.at:
            st0 = par0[st0]
        before_io = st0 in ea.at and "io" not in ea.at[st0] and not any(isinstance(n, ast.Call) and is_io_call(n) for n in ast.walk(pf.node))
    ctx.ob("C20.a", fn.qual, before_io, "the settings-parsing loop starts before any call that can reach the network", func=fn.qual, file=file,
           construct="settings loop position", fail="a network call (_connect / refresh / ...) can happen before the settings are parsed and validated")
    inner_io = [n for st in sl.body for n in ast.walk(st) if isinstance(n, ast.Call) and is_io_call(n)]
    ctx.ob("C20.a", fn.qual, not inner_io, "no network call inside the parsing loop", func=fn.qual, file=file, node=inner_io[0] if inner_io else None,
           fail="the parsing loop itself talks to the device: a later invalid setting is rejected after something was sent")
    # the pending set: the local that the parsing loop extends by key stores (whatever it is called)
    info = ps.loops[sl]
    PEND = None
    for st in info["ends"] + info["continues"]:
        for k, v in st.env.items():
            if "." not in k and any(x[0] == "store" and x[1] == ("loopvar", k, sl.lineno) for x in subterms(v)):
                PEND = k
    if PEND is None:
        raise AnalysisError(f"{fn.qual}: the parsing loop records its results in no local mapping")
    # (when a helper parses, _control holds its result under a name of its own)
    pend_names = {(pf, PEND)}
    if pf is not fn:
        rets_pf = {strip(t) for _pc, t, n, _ in ps.returns if n is not None}
        if not (len(rets_pf) == 1 and all(x[0] in ("loopvar", "mut") and any(y[0] == "loopvar" and y[1] == PEND for y in subterms(x)) for x in rets_pf)):
            raise AnalysisError(f"{pf.qual}: the parsing helper does not return the mapping it fills")
        for a_ in ast.walk(fn.node):
            if isinstance(a_, ast.Assign) and a_.value is pcall and len(a_.targets) == 1 and isinstance(a_.targets[0], ast.Name):
                pend_names.add((fn, a_.targets[0].id))
        if len(pend_names) != 2:
            raise AnalysisError(f"{fn.qual}: the result of the parsing helper is not kept in a local")
    stores = []
    for f_, nm_ in pend_names:
        stores += [n for n in ast.walk(f_.node) if isinstance(n, ast.Subscript) and isinstance(n.ctx, ast.Store) and isinstance(n.value, ast.Name) and n.value.id == nm_]
        stores += [n for n in ast.walk(f_.node) if isinstance(n, ast.Call) and isinstance(n.func, ast.Attribute) and isinstance(n.func.value, ast.Name) and n.func.value.id == nm_
                   and n.func.attr in ("update", "setdefault", "__setitem__")]
    outside = [n for n in stores if not any(n is x for st in sl.body for x in ast.walk(st))]
    ctx.ob("C20.a", fn.qual, not outside and bool(stores), "every pending setting is recorded inside the parsing loop (validated before I/O)", func=fn.qual, file=file,
           construct="new_properties stores", fail="settings are added to the pending set outside the validated parsing loop")
    exit_fns = {}
    for q0 in (f"{CLI}._control", f"{CLI}._connect", f"{CLI}._query"):
        for f2 in with_helpers(prog, ctx.fn(q0)):        # ... and the helpers they call that the rules do not know
            exit_fns[f2.qual] = f2
    for q, f2 in sorted(exit_fns.items()):
        for n in ast.walk(f2.node):
            if isinstance(n, ast.Call) and isinstance(n.func, ast.Name) and n.func.id == "exit":
                ctx.count("exits")
                v = prog.fold_or_none(n.args[0], f2.module) if n.args else None
                if v is None and n.args and isinstance(n.args[0], ast.Name):
                    # a constant of the (enclosing) function: bound exactly once to a literal
                    asg = [a_ for a_ in ast.walk(f2.node) if isinstance(a_, ast.Assign) and any(isinstance(t_, ast.Name) and t_.id == n.args[0].id for t_ in a_.targets)]
                    nst = sum(1 for x_ in ast.walk(f2.node) if isinstance(x_, ast.Name) and isinstance(x_.ctx, ast.Store) and x_.id == n.args[0].id)
                    if len(asg) == 1 and nst == 1:
                        v = prog.fold_or_none(asg[0].value, f2.module)
                if v is None and n.args and f2.qual in prog.funcs:
                    tv_ = summarize(prog, f2).ta.terms_at.get(n.args[0])      # a local constant (EXIT_FAILURE = 1)
                    v = tv_[1] if tv_ is not None and is_const(tv_) else None
                ctx.ob("C20.a", q, isinstance(v, int) and v != 0, f"exit({v}) is a non-zero status", func=q, file=file, node=n,
                       fail=f"a rejection / failure path exits with status {v}")
    # ---------------------------------------------------------------- C20.b
    leaves = []
    for st in info["ends"] + info["continues"]:
        v = st.env.get(PEND)
        if v is None:
            continue
        for conds, leaf in ite_leaves(v):
            if leaf[0] == "store":
                # (the stored value may itself be gated: `x = a if c else b; pending[name] = x`)
                for conds2, val in ite_leaves(strip(leaf[3])):
                    leaves.append((tuple(st.pc) + tuple(conds) + tuple(conds2), ("store", leaf[1], leaf[2], val), st))
    ctx.count("conversion_leaves", len(leaves))
    NAME = None
    for conds, leaf, st in leaves:
        NAME = leaf[2]
    # the default value the conversion type is taken from: getattr(<fresh AirConditioner>, name); path facts at its statement
    # (searched in the parsing function and in the helpers it was split into; terms and conditions are then in the parsing function's frame)
    from ..helpers import pc_lookup, term_lookup
    ptl, ppc = term_lookup(prog, pf), pc_lookup(prog, pf)
    conv_stmt = conv_call = None
    conv_pc = ()
    for f_ in with_helpers(prog, pf):
        par = {}
        for n in ast.walk(f_.node):
            for c in ast.iter_child_nodes(n):
                par[c] = n
        for n in (ast.walk(sl) if f_ is pf else ast.walk(f_.node)):
            t = ptl(n) if isinstance(n, ast.Call) else None
            if t is not None and call_is(t, "getattr") and len(t[2]) >= 2 and _fresh_instance(prog, f_, strip(t[2][0])):
                st_n = n
                while st_n in par and ppc(st_n) is None:
                    st_n = par[st_n]
                if ppc(st_n) is not None:
                    conv_stmt, conv_call, conv_pc = st_n, n, ppc(st_n)
    DEFAULT = ptl(conv_call) if conv_call is not None else None
    TYPE = ("call", ("ext", "type"), (DEFAULT,), ()) if DEFAULT is not None else None
    if conv_stmt is None:
        ctx.violation("C20.b", fn.qual, "the conversion type is not taken from a fresh AirConditioner instance's attribute", file=file, construct="attr_value")
    else:
        facts = atoms(conv_pc)
        tv = DEFAULT
        fresh = call_is(tv, "getattr") and call_is(strip(tv[2][0]), AC) and strip(tv[2][1]) == strip(NAME)
        ctx.ob("C20.b", fn.qual, fresh, "conversion type = type(getattr(<fresh AirConditioner>, name))", func=fn.qual, file=file, node=conv_stmt,
               fail="the conversion type does not come from the named attribute's default on a fresh instance")
        prop_terms = [x for f in facts for x in subterms(f) if call_is(x, "getattr") and x[2][0] == ("global", AC) and strip(x[2][1]) == strip(NAME)]
        PROP = prop_terms[0] if prop_terms else None
        # (isinstance(x, property) already excludes None: a separate `is None` test is optional)
        exists = PROP is not None and any(call_is(f, "isinstance") and f[2] == (PROP, ("global", "property")) for f in facts)
        ctx.ob("C20.b", fn.qual, exists, "conversion is reached only when getattr(AirConditioner, name) is a property", func=fn.qual, file=file, node=conv_stmt,
               detail={"facts": [show(f)[:100] for f in facts]}, fail="unknown setting names are not rejected before conversion")
        # writable: NOT(name != KEY and fset is None)  <=>  name == KEY or fset is not None
        # in whatever form the test is written: in every case of the path condition one of the two atoms holds, and each is the reason in some case
        def key_atom(x):
            x = oriented(x)
            return x[0] == "cmp" and x[1] == "==" and strip(x[2]) == strip(NAME) and strip(x[3]) == ("const", "display_on")

        def fset_atom(x):
            return PROP is not None and x[0] == "cmp" and x[1] in ("is not", "!=") and strip(x[3]) == ("const", None) and strip(x[2]) == ("attr", PROP, "fset")
        try:
            cs = cases(conv_pc)
        except ValueError:
            cs = []
        by_key = [c_ for c_ in cs if any(key_atom(x) for x in c_)]
        by_fset = [c_ for c_ in cs if any(fset_atom(x) for x in c_)]
        wr = bool(cs) and bool(by_key) and bool(by_fset) and all(any(key_atom(x) or fset_atom(x) for x in c_) for c_ in cs)
        ctx.ob("C20.b", fn.qual, wr, "read-only settings are rejected (no setter), except the display key which is handled by toggling", func=fn.qual, file=file,
               node=conv_stmt, fail="read-only settings are not rejected before conversion (or the display exception changed)")
    # ---------------------------------------------------------------- C20.c inventory
    ac = prog.cls(AC)
    defaults = init_attrs(prog, ac)
    ctx.fn(f"{AC}.__init__")
    enums = {q for q, c in prog.classes.items() if q.startswith(AC + ".") and prog.is_enum(c)}
    writable = sorted(set(ac.props_set) | {"display_on"})
    for name in writable:
        g = ac.methods.get(name)
        if g is None or g.kind != "property":
            continue
        ctx.count("writable_properties")
        t = strip(summarize(prog, g).return_term())
        hops = 0
        while t[0] == "attr" and t[1] == ("param", g.params[0]) and t[2] in ac.methods and ac.methods[t[2]].kind == "property" and hops < 3:
            g2 = ac.methods[t[2]]
            t = strip(summarize(prog, g2).return_term())
            t = t if t[1] != ("param", g2.params[0]) else ("attr", ("param", g.params[0]), t[2])
            hops += 1
        dv = None
        if t[0] == "attr" and t[1] == ("param", g.params[0]):
            dv = defaults.get(t[2])
        elif t[0] == "cmp":
            dv = ("const", False)       # breeze getters: equality test -> bool
        ok = dv is not None and (dv[0] == "enum" or (is_const(dv) and isinstance(dv[1], (bool, int, float)) and dv[1] is not None))
        # the CLI converts with the *default's* type: a setting documented / annotated as float must default to a float,
        # a bool one to a bool (otherwise 20.5 is truncated / True is parsed as a number)
        st_ = ac.props_set.get(name)
        if ok and st_ is not None and len(st_.node.args.args) > 1 and st_.node.args.args[1].annotation is not None and is_const(dv):
            ann = norm(st_.node.args.args[1].annotation)
            want_t = {"float": float, "bool": bool, "int": int}.get(ann)
            if want_t is not None:
                ok_t = type(dv[1]) is want_t
                ctx.ob("C20.c", f"{AC}.{name}", ok_t, f"`{name}` takes a {ann} and its default {dv[1]!r} is a {ann}: the CLI converts with that type", func=f"{AC}.{name}",
                       file=ac.module.rel, construct=f"{name} default type",
                       fail=f"`{name}` takes a {ann} but its default is {dv[1]!r} ({type(dv[1]).__name__}): the CLI converts command-line values with the default's type "
                            f"(e.g. 20.5 becomes {int(20.5) if want_t is float else 20.5})")
        ctx.ob("C20.c", f"{AC}.{name}", ok, f"default of `{name}` is {show(dv) if dv else None}: convertible", func=f"{AC}.{name}", file=ac.module.rel,
               construct=f"{name} default", fail=f"writable setting `{name}` has default {show(dv) if dv else 'unknown'}: the CLI cannot derive a conversion type from it")
    for q in sorted(enums):
        for m in prog.enum_members(prog.classes[q]):
            if m != m.upper():
                ctx.ob("C20.d", q, False, "", func=q, file=ac.module.rel, construct=f"{q.split('.')[-1]}.{m}", fail=f"enum member {m} is not upper-case: upper-casing the input no longer means case-insensitive")
        ctx.count("enum_classes")
    # ---------------------------------------------------------------- C20.d decision tree
    # Every value recorded for a setting, with the decisions on its path (the loop's path condition plus the gates of the stored
    # term; converters that are helpers - nested or module-level - are seen through).  Decisions are recognised in any spelling
    # that tests the same thing: isinstance(default, C) / issubclass(type(default), C) / type(default) is C.
    ENUM_BASE, FAN = ("global", "msmart.utils.MideaIntEnum"), ("global", f"{AC}.FanSpeed")

    def is_type_term(x):
        x = strip(x)
        return DEFAULT is not None and call_is(x, "type") and len(x[2]) == 1 and strip(x[2][0]) == strip(DEFAULT)

    def is_default(x):
        return DEFAULT is not None and strip(x) == strip(DEFAULT)

    def decisions(conds):
        enum_b = bool_b = num_b = fan_g = None
        for a in atoms(conds):
            truth = True
            a = strip(a)
            while a[0] == "un" and a[1] == "not":
                a, truth = strip(a[2]), not truth
            if call_is(a, "isinstance") and len(a[2]) == 2:
                if is_default(a[2][0]) and a[2][1] == ENUM_BASE:
                    enum_b = truth
                elif is_default(a[2][0]) and a[2][1] == ("global", "bool"):
                    bool_b = truth
                elif a[2][1][0] == "tuple" and set(a[2][1][1]) == {("global", "int"), ("global", "float")}:
                    num_b = truth
            elif call_is(a, "issubclass") and len(a[2]) == 2 and is_type_term(a[2][0]):
                if a[2][1] == ENUM_BASE:
                    enum_b = truth
                elif a[2][1] == ("global", "bool"):
                    bool_b = truth
            elif a[0] == "cmp" and a[1] in ("in", "not in") and is_type_term(a[2]) and strip(a[3])[0] in ("tuple", "list", "set") and strip(a[3])[1] \
                    and all(strip(x) == FAN for x in strip(a[3])[1]):
                fan_g = (a[1] == "in") == truth          # membership in a collection that holds FanSpeed only
            elif a[0] == "cmp" and a[1] in ("==", "is", "!=", "is not"):
                l, r = strip(a[2]), strip(a[3])
                if is_type_term(r):
                    l, r = r, l
                if is_type_term(l):
                    pos = (a[1] in ("==", "is")) == truth
                    if r == FAN:
                        fan_g = pos
                    elif r == ("global", "bool"):
                        bool_b = pos
        return enum_b, bool_b, num_b, fan_g

    def literal_of(x):
        """x is ast.literal_eval(y) - possibly with the fallback `y` when the literal does not parse: returns y"""
        x = strip(x)
        if x[0] == "ite":
            ys = {repr(literal_of(x[2]) or strip(x[2])), repr(literal_of(x[3]) or strip(x[3]))}
            inner = literal_of(x[2]) or literal_of(x[3])
            return inner if inner is not None and len(ys) == 1 else None
        if call_is(x, "ast.literal_eval") and len(x[2]) == 1:
            return strip(x[2][0])
        return None

    kinds = {}
    for conds, leaf, st in leaves:
        val = leaf[3]
        if strip(val)[0] == "top" and str(strip(val)[1]).startswith("unreachable"):
            continue          # (the alternative a seen-through helper never delivers: all its other ways out raise / exit)
        enum_b, bool_b, num_b, fan_g = decisions(conds)
        v = strip(val)
        typed_call = v[0] == "call" and v[1][0] == "dyn" and is_type_term(v[1][1]) and len(v[2]) == 1
        by_name_idx = v[2] if (v[0] == "sub" and (is_type_term(v[1]) or (strip(v[1])[0] == "attr" and strip(v[1])[2] == "__members__" and is_type_term(strip(v[1])[1])))) else (
            v[2][0] if (v[0] == "call" and v[1][0] == "meth" and v[1][2] == "get" and strip(v[1][1])[0] == "attr" and strip(v[1][1])[2] == "__members__"
                        and is_type_term(strip(v[1][1])[1]) and v[2]) else None)
        if enum_b and num_b and typed_call:
            kinds["enum-by-value"] = (conds, v)
        elif enum_b and num_b and call_is(v, "int"):
            kinds["raw-int"] = (conds, v, fan_g)
        elif enum_b and num_b is False and by_name_idx is not None:
            kinds["enum-by-name"] = (conds, v, by_name_idx)
        elif enum_b is not True and bool_b and call_is(v, "bool") and len(v[2]) == 1:       # (a bool default is never an enum member)
            kinds["bool"] = (conds, v)
        elif enum_b is False and bool_b is False and typed_call:
            kinds["number"] = (conds, v)
        else:
            kinds.setdefault("other", []).append((show(v)[:100], [show(c)[:60] + f"={t}" for c, t in conds]))
    ctx.ob("C20.d", fn.qual, set(kinds) == {"enum-by-value", "raw-int", "enum-by-name", "bool", "number"}, "the stored value has exactly the five documented conversion leaves",
           func=fn.qual, file=file, construct="conversion decision tree", detail={"kinds": sorted(kinds), "other": kinds.get("other")},
           fail=f"conversion decision tree changed: leaves {sorted(kinds)} {kinds.get('other', '')}")
    VALUE = None
    if NAME is not None and strip(NAME)[0] == "item":
        VALUE = ("item", strip(NAME)[1], 1)
    if "raw-int" in kinds:
        ctx.ob("C20.d", fn.qual, kinds["raw-int"][2] is True, "raw integers are accepted only when the attribute type is FanSpeed", func=fn.qual, file=file,
               construct="raw integer fallback", fail="raw integers are accepted for enumerations other than FanSpeed")
    if "enum-by-name" in kinds:
        idx = strip(kinds["enum-by-name"][2])
        ctx.ob("C20.d", fn.qual, meth_is(idx, "upper"), "member lookup by upper-cased name (case-insensitive)", func=fn.qual, file=file, construct="attr_type[value.upper()]",
               fail="enum members are looked up by the raw text: lower-case names documented in the README are rejected")
    if "bool" in kinds:
        lit = literal_of(kinds["bool"][1][2][0])
        ctx.ob("C20.d", fn.qual, lit is not None and meth_is(lit, "capitalize"), "booleans: capitalised literal through bool (True/False/1/0)",
               func=fn.qual, file=file, construct="convert(value.capitalize(), bool)", fail="boolean conversion changed (true/false spellings or 1/0 no longer accepted)")
    if "number" in kinds:
        lit = literal_of(kinds["number"][1][2][0])
        ctx.ob("C20.d", fn.qual, lit is not None and (VALUE is None or lit == VALUE), "numbers: literal through the default's type (int or float)", func=fn.qual, file=file,
               construct="convert(value, attr_type)", fail="numeric conversion no longer uses the attribute's own type / the given text")
    # the literal converter: where a type is applied directly to ast.literal_eval(text), ill-typed text exits non-zero
    from ..helpers import ancestor_chains
    def always_exits(call, f_):
        """the call goes to a module-level function that ends, on every path, in exit(<non-zero>) (a `_reject(message)` helper)"""
        r_ = prog.resolve_name(f_.module, call.func.id, None) if isinstance(call.func, ast.Name) else None
        body = getattr(getattr(r_, "node", None), "body", None)
        if not body or not hasattr(r_, "qual") or r_.qual not in prog.funcs:
            return False
        last = body[-1]
        if any(isinstance(x, (ast.Return, ast.If, ast.Try, ast.While, ast.For)) for x in ast.walk(r_.node)):
            return False
        ok_ = isinstance(last, ast.Expr) and isinstance(last.value, ast.Call) and isinstance(last.value.func, ast.Name) and last.value.func.id == "exit" and last.value.args
        v_ = prog.fold_or_none(last.value.args[0], r_.module) if ok_ else None
        return isinstance(v_, int) and v_ != 0
    conv_sites = ancestor_chains(prog, fn, lambda f_, n: isinstance(n.func, ast.Attribute) and n.func.attr == "literal_eval")
    c_ok = False
    n_conv = 0
    def through_helpers(chain):
        """`return <expr>` directly in a helper's body stands where the helper is called: those two links are dropped"""
        out_, i_ = [], 0
        while i_ < len(chain):
            if i_ + 1 < len(chain) and isinstance(chain[i_][0], ast.Return) and isinstance(chain[i_ + 1][0], (ast.FunctionDef, ast.AsyncFunctionDef)) and chain[i_ + 1][1] == "body" \
                    and i_ + 2 < len(chain):
                i_ += 2
                continue
            out_.append(chain[i_])
            i_ += 1
        return out_
    for _f, call, chains in conv_sites:
        for chain in chains:
            chain = through_helpers(chain)
            if not chain or not isinstance(chain[0][0], ast.Call):
                continue            # (the enum branch only probes for a number and falls back to the name: not a converter)
            n_conv += 1
            tr = next((x for x, fld in chain if isinstance(x, ast.Try) and fld == "body"), None)
            def hnames(h_):
                ty = h_.type
                if isinstance(ty, ast.Name) and isinstance(prog.module_assigns(_f.module).get(ty.id), ast.Tuple):
                    ty = prog.module_assigns(_f.module)[ty.id]          # a named tuple of exception classes
                return {norm(e) for e in (ty.elts if isinstance(ty, ast.Tuple) else [ty])}
            c_ok = tr is not None and any(
                {"ValueError", "SyntaxError"} <= hnames(h) and
                any(isinstance(x, ast.Call) and isinstance(x.func, ast.Name) and (x.func.id == "exit" or always_exits(x, _f)) for x in ast.walk(h)) for h in tr.handlers if h.type is not None)
            if not c_ok:
                break
    ctx.ob("C20.d", fn.qual, c_ok and n_conv >= 1, "convert(v, t) = t(ast.literal_eval(v)); ill-typed literals exit non-zero", func=fn.qual, file=file, construct="convert()",
           fail="the literal converter changed (ill-typed values are no longer rejected with a non-zero exit)")
    for conds, leaf, st in leaves:
        ctx.ob("C20.e", fn.qual, strip(leaf[2]) == strip(NAME) and strip(NAME)[0] == "item" and strip(NAME)[2] == 0, "a value is recorded under the name given on the command line",
               func=fn.qual, file=file, construct="new_properties[name]", fail="a converted value is stored under another key than the given setting name")
    # ---------------------------------------------------------------- C20.e order of the run
    ftl, fpc = term_lookup(prog, fn), pc_lookup(prog, fn)          # (through the helpers _control was split into)

    def on_stmt2(node, st):
        ev = []
        if isinstance(node, (ast.FunctionDef, ast.AsyncFunctionDef)):
            return ev
        for c in ast.walk(node):
            if isinstance(c, ast.Call):
                f = c.func
                nm = f.attr if isinstance(f, ast.Attribute) else (f.id if isinstance(f, ast.Name) else None)
                if nm in ("refresh", "apply", "setattr", "toggle_display", "_connect"):
                    ev.append(nm)
                if nm == "pop" and c.args and ftl(c.args[0]) == ("const", "display_on"):
                    ev.append("display_popped")
            if isinstance(c, ast.NamedExpr) and isinstance(c.value, ast.Call) and isinstance(c.value.func, ast.Attribute) and c.value.func.attr == "pop":
                ev.append("display_popped")
        return ev

    def on_branch2(test, truth, st):
        if any(isinstance(c, ast.Call) and isinstance(c.func, ast.Attribute) and c.func.attr == "pop" for c in ast.walk(test)):
            return ["display_popped"]
        return []
    def on_stmt3(node, st):
        ev = on_stmt2(node, st)
        out = list(ev)
        if "setattr" in ev:
            out.append("pending_set")
        if ("toggle_display" in ev or "refresh" in ev) and "pending_set" in st:
            out.append("clobbered")          # toggle_display() ends in a refresh, which overwrites the attributes just set
        return out
    may3 = EventAnalysis(must=False, on_stmt=on_stmt3, on_branch=on_branch2)
    run_events(prog, fn, may3)
    must = EventAnalysis(must=True, on_stmt=on_stmt2, on_branch=on_branch2)
    run_events(prog, fn, must)
    may = EventAnalysis(must=False, on_stmt=on_stmt2, on_branch=on_branch2)
    run_events(prog, fn, may)
    for node, st in must.at.items():
        if isinstance(node, ast.Expr) and isinstance(node.value, ast.Call) and isinstance(node.value.func, ast.Name) and node.value.func.id == "setattr":
            ctx.count("setattr_sites")
            ctx.ob("C20.e", fn.qual, {"_connect", "refresh", "display_popped"} <= st and "apply" not in may.at[node], "setattr happens after connect + refresh, after the display key was removed, before apply",
                   func=fn.qual, file=file, node=node, detail={"must_before": sorted(st)},
                   fail="settings are applied to the device object before the refresh (unspecified settings are not left as reported) / with the display key still pending / after apply")
            a = ftl(node.value)
            okk = False
            if a is not None and len(a[2]) == 3:
                k = strip(a[2][1])
                src = k[1] if k[0] == "item" else k
                if src[0] == "iter":
                    coll = strip(src[1])
                    if meth_is(coll, "items", "keys"):
                        coll = strip(coll[1][1])
                    okk = coll[0] in ("mut", "loopvar") and (coll[0] == "loopvar" and coll[1] == PEND or
                                                             coll[0] == "mut" and any(x[0] == "loopvar" and x[1] == PEND for x in subterms(coll)))
            ctx.ob("C20.e", fn.qual, okk, "only names from the pending (command-line) set are assigned", func=fn.qual, file=file, node=node,
                   fail="setattr assigns names that do not come from the parsed command-line settings")
        if isinstance(node, ast.Expr) and isinstance(node.value, ast.Await) and isinstance(node.value.value, ast.Call) and isinstance(node.value.value.func, ast.Attribute):
            nm = node.value.value.func.attr
            if nm == "apply":
                ctx.count("apply_sites")
                facts = atoms(fpc(node) or ())
                def is_pending(x):
                    x = strip(x)
                    return x[0] in ("mut", "loopvar") and any(y[0] == "loopvar" and y[1] == PEND for y in subterms(x))
                nonempty = False
                for c, truth in (fpc(node) or ()):
                    cs = strip(c)
                    if cs[0] == "un" and cs[1] == "not" and is_pending(cs[2]) and not truth:
                        nonempty = True
                    elif is_pending(cs) and truth:
                        nonempty = True
                    elif cs[0] == "cmp" and call_is(strip(cs[2]), "len") and is_pending(strip(cs[2])[2][0]) and is_const(cs[3]):
                        if (cs[1], cs[3][1], truth) in (("==", 0, False), ("!=", 0, True), (">", 0, True), (">=", 1, True), ("<", 1, False), ("<=", 0, False)):
                            nonempty = True
                ctx.ob("C20.e", fn.qual, {"refresh", "setattr"} <= st or ("refresh" in st and "setattr" in may.at[node]), "apply follows refresh and the setattr loop", func=fn.qual, file=file, node=node,
                       fail="apply() does not follow the refresh and the assignment of the settings")
                ctx.ob("C20.e", fn.qual, "clobbered" not in may3.at.get(node, frozenset()), "nothing refreshes the device object between the setattr loop and apply",
                       func=fn.qual, file=file, node=node,
                       fail="a refresh (e.g. inside toggle_display) can run after the settings were assigned and before apply(): the assigned values are overwritten "
                            "by the reported state and apply() re-sends the old state")
                ctx.ob("C20.e", fn.qual, nonempty, "apply is skipped when no other setting is pending", func=fn.qual, file=file, node=node,
                       detail={"facts": [show(f)[:80] for f in facts]}, fail="apply() is sent even when nothing but the display was requested")
            if nm == "toggle_display":
                ctx.count("toggle_sites")
                facts = atoms(fpc(node) or ())
                differs = any(f[0] == "cmp" and f[1] == "!=" and any(strip(x)[0] == "attr" and strip(x)[2] == "display_on" for x in (f[2], f[3])) for f in facts)
                present = any(f[0] == "cmp" and f[1] == "is not" and f[3] == ("const", None) for f in facts)
                ctx.ob("C20.e", fn.qual, differs and present and "refresh" in st, "the display is toggled only when requested and different from the refreshed display_on",
                       func=fn.qual, file=file, node=node, detail={"facts": [show(f)[:80] for f in facts]},
                       fail="the display is toggled unconditionally / before the refresh / without comparing with the reported state")
    co = ctx.fn(f"{CLI}._connect")
    cos = summarize(prog, co)
    ports = [dict(t[3]).get("port") for n, t in cos.ta.terms_at.items() if isinstance(n, ast.Call) and call_is(t, AC)]
    ctx.ob("C20.e", co.qual, ports == [("const", 6444)], "manual connection constructs the device on port 6444", func=co.qual, file=file, construct="AC(ip=..., port=6444, ...)",
           detail={"ports": [show(p) if p else None for p in ports]}, fail=f"manual connection uses port {[show(p) if p else None for p in ports]}")
    # ---------------------------------------------------------------- C20.f the exit status _control chose is the one the process ends with
    # (between `exit(1)` in _control and the interpreter nothing replaces the SystemExit: no handler for it, no `finally` that exits,
    # returns or raises on the way out of the runner / entry point)
    climod = fn.module
    runners = []
    for q_, f_ in prog.funcs.items():
        if f_.module is not climod or f_ is fn:
            continue
        for t_ in ast.walk(f_.node):
            if not isinstance(t_, ast.Try):
                continue
            body_calls = [norm(c_.func) for b_ in t_.body for c_ in ast.walk(b_) if isinstance(c_, ast.Call)]
            if not any(c_ in ("asyncio.run", "_run", "args.func", "loop.run_until_complete") or c_.endswith(".run_until_complete") for c_ in body_calls):
                continue
            runners.append((f_, t_))
    ctx.count("runner_try_blocks", len(runners))
    for f_, t_ in runners:
        bad_ = None
        for h_ in t_.handlers:
            names_ = ["BaseException"] if h_.type is None else [norm(x_).split(".")[-1] for x_ in (h_.type.elts if isinstance(h_.type, ast.Tuple) else [h_.type])]
            reraises = any(isinstance(x_, ast.Raise) and x_.exc is None for b_ in h_.body for x_ in ast.walk(b_))
            exits_nonzero = any(isinstance(x_, ast.Call) and norm(x_.func) in ("exit", "sys.exit", "quit", "os._exit") and x_.args
                                and isinstance(prog.fold_or_none(x_.args[0], f_.module), int) and prog.fold_or_none(x_.args[0], f_.module) != 0 for b_ in h_.body for x_ in ast.walk(b_))
            if any(n_ in ("SystemExit", "BaseException") for n_ in names_) and not reraises:
                bad_ = (h_, f"`except {', '.join(names_)}` swallows the SystemExit")
            elif any(n_ == "Exception" for n_ in names_) and not reraises and not exits_nonzero:
                # (settings _control rejects by letting an exception escape - `eco` without a value, `a=b=c` - end the process non-zero too)
                bad_ = (h_, "`except Exception` swallows the exception an ill-formed setting raises and the runner goes on to its normal exit")
        for b_ in t_.finalbody:
            for x_ in ast.walk(b_):
                if isinstance(x_, (ast.Return, ast.Raise)) or (isinstance(x_, ast.Call) and norm(x_.func) in ("exit", "sys.exit", "quit", "os._exit")):
                    bad_ = bad_ or (x_, f"`{norm(x_)[:40]}` in a finally block replaces the pending SystemExit")
        ctx.ob("C20.f", f_.qual, bad_ is None, "the runner lets a SystemExit raised by the command pass through unchanged", func=f_.qual, file=file,
               node=bad_[0] if bad_ else t_, construct="try around the command",
               fail=(bad_[1] + ": a rejected setting ends the process with status 0") if bad_ else "")
    # "applies the interpretation of each pair and leaves unspecified settings as the device reported them": the value assigned by the CLI -
    # and the reported one for every setting not named - is what apply() encodes (setter -> attribute -> command attribute unchanged; C10.f)
    from ._chains import apply_chains
    apply_chains(ctx, "C20.e")
    from ._chains import transparent_deprecated
    transparent_deprecated(ctx, "C20.c")          # (a deprecated setting name reads the same default and writes the same attribute)
    # ---- C20.t10 "applies the documented interpretation of each pair": what the CLI assigned is what apply() encodes - apply() takes its snapshot
    # of the attributes before it first suspends and stores none of them itself (C10.g), re-run here
    from . import c10
    ctx.import_rules(c10, "t10", only=("C10.g",))
    # ---- C20.t4 "display via toggle only when it differs": the toggle is not idempotent, so the one toggle the CLI decides on must not be
    # retransmitted because its reply was dropped on the way up (lost in reassembly, the exchange then times out and resends).  The reassembly
    # premises of C04 (both data_received implementations deliver every complete packet, whatever the segmentation) are re-run here.
    from . import c04
    ctx.import_rules(c04, "t4")
    ctx.require_min("settings_loops", 1)
    ctx.require_min("exits", 2)          # (eleven on the pinned tree; a shared reject helper legitimately leaves a handful)
    ctx.require_min("conversion_leaves", 5)
    ctx.require_min("writable_properties", 25)
    ctx.require_min("enum_classes", 7)
    ctx.require_min("setattr_sites", 1)
    ctx.require_min("apply_sites", 1)
    ctx.require_min("toggle_sites", 1)
