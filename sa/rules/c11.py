"""C11 - state responses decode to exactly the reported state.

StateResponse._parse is interpreted in the bit-field / linear-form domain over an *abstract payload* built from the
vendor's 0xC0 layout (each reference field a source over its full raw domain, don't-care bits `free`, symbolic
length >= 16), split into guard regions (alternate code zero / non-zero, payload length, display code ...).

  C11.a  per attribute: the decoded value equals the reported field for all raw values at once; a result that depends
         on a `free` bit or on another field's bits is a violation
  C11.b  optional fields: target_humidity / freeze_protection are set only where the length covers their byte, None otherwise
  C11.c  temperatures (_parse_temperature as a decision tree): None exactly for raw 0xFF; otherwise |result − (raw−50)/2| <= 1;
         in Celsius with a non-zero tenths digit the result is trunc(t) ± tenths/10; call sites bind indoor ↔ (b11, low
         nibble of b15), outdoor ↔ (b12, high nibble)
  C11.d  device mapping: _update_state copies each response attribute into the backing attribute of the public property
         of the same meaning (enum mapping total, custom fan fallback, aux-mode decision tree); getters return them
Reference caveats (DESIGN.md §3 C11): fan is the whole byte 3; display is the 3-bit code b14[4:7] with the other bits
of b14 zero; alternate codes use +12 over the 13..43 range.
"""
from __future__ import annotations

import ast
from fractions import Fraction

from ..bits import Bits, BitEval, LinV, NeedPred, NeedSplit, Pred, Region, Top, eval_regions
from ..ctor import init_attrs
from ..facts import simplify, atoms, call_is, meth_is, strip
from ..model import AnalysisError, norm
from ..terms import is_const, pc_term, replace, show, subterms, summarize, unview

CMD = "msmart.device.AC.command"
SR = f"{CMD}.StateResponse"
AC = "msmart.device.AC.device.AirConditioner"

# Vendor layout of the 0xC0 body (Lua binToModel l.1664-1836; MideaUART for the bits the Lua does not decode).
#   byte -> [(lo, width, field name | None for don't-care)]
LAYOUT = {
    1: [(0, 1, "power")],                                        # l.1671  (bits 2,4,7: imode/timer/error - don't care)
    2: [(0, 4, "t_prim"), (4, 1, "half"), (5, 3, "mode")],       # l.1691-1692, 1672
    3: [(0, 8, "fan")],                                          # whole byte (msmart / MideaUART; Lua masks 0x7F)
    7: [(0, 4, "swing")],                                        # l.1755-1757
    8: [(5, 1, "turbo_a"), (6, 1, "indep_aux"), (7, 1, "follow_me")],    # l.1726, 1826
    9: [(3, 1, "aux_heat"), (4, 1, "eco"), (5, 1, "purifier")],  # l.1745-1751 (PTC 0x18: bit 3 aux, bit 4 is eco in 0xC0)
    10: [(0, 1, "sleep"), (1, 1, "turbo_b"), (2, 1, "fahrenheit")],      # l.1727-1728, 1791
    11: [(0, 8, "indoor_raw")], 12: [(0, 8, "outdoor_raw")],     # l.1768, 1773
    13: [(0, 5, "t_alt"), (5, 1, "filter")],                     # l.1806-1813, 1759
    14: [(4, 3, "display")],                                     # l.1817 (other bits of b14 declared zero: what 0xC0 carries)
    15: [(0, 4, "indoor_tenths"), (4, 4, "outdoor_tenths")],     # l.1769, 1774
    19: [(0, 7, "humidity")],                                    # l.1679
    21: [(7, 1, "freeze")],                                      # l.1819
}
ZERO_REST = {14}        # bytes whose unlisted bits are declared zero instead of free
BOOL_FIELDS = {"power", "half", "turbo_a", "indep_aux", "follow_me", "aux_heat", "eco", "purifier", "sleep", "turbo_b", "fahrenheit",
               "filter", "freeze"}
DOMAINS = {"t_prim": [(0, 15)], "mode": [(0, 7)], "fan": [(0, 255)], "swing": [(0, 15)], "indoor_raw": [(0, 255)], "outdoor_raw": [(0, 255)],
           "t_alt": [(0, 31)], "display": [(0, 7)], "indoor_tenths": [(0, 9)], "outdoor_tenths": [(0, 9)], "humidity": [(0, 100)],
           "len": [(16, 64)]}


def R(name):
    return ("ref", name)


def payload_byte(k: int) -> Bits:
    fields = []
    used = set()
    for lo, w, name in LAYOUT.get(k, []):
        if name in BOOL_FIELDS:
            fields.append((lo, 1, ("pred", name)))
        else:
            fields.append((lo, w, ("src", name, 0)))
        used |= set(range(lo, lo + w))
    if k not in ZERO_REST:
        for b in range(8):
            if b not in used:
                fields.append((b, 1, ("free", f"b{k}.{b}")))
    return Bits(fields)


# expected value of each StateResponse attribute, as terms over reference fields
def _or(a, b):
    return ("bin", "|", a, b)


EXPECTED = {
    "power_on": R("power"),
    "target_temperature": ("ite", ("cmp", "!=", R("t_alt"), ("const", 0)),
                           ("bin", "+", ("bin", "+", R("t_alt"), ("const", 12)), ("ite", R("half"), ("const", 0.5), ("const", 0.0))),
                           ("bin", "+", ("bin", "+", R("t_prim"), ("const", 16)), ("ite", R("half"), ("const", 0.5), ("const", 0.0)))),
    "operational_mode": R("mode"),
    "fan_speed": R("fan"),
    "swing_mode": R("swing"),
    "turbo": _or(R("turbo_a"), R("turbo_b")),
    "eco": R("eco"), "sleep": R("sleep"), "fahrenheit": R("fahrenheit"), "filter_alert": R("filter"), "follow_me": R("follow_me"),
    "purifier": R("purifier"), "aux_heat": R("aux_heat"), "independent_aux_heat": R("indep_aux"),
    "display_on": ("cmp", "!=", R("display"), ("const", 7)),
    "target_humidity": ("ite", ("cmp", ">=", R("len"), ("const", 20)), R("humidity"), ("const", None)),
    "freeze_protection": ("ite", ("cmp", ">=", R("len"), ("const", 22)), R("freeze"), ("const", None)),
}
TEMPS = {"indoor_temperature": ("indoor_raw", "indoor_tenths"), "outdoor_temperature": ("outdoor_raw", "outdoor_tenths")}


def norm_val(v, be):
    """Canonical form for comparing abstract values."""
    if isinstance(v, bool):
        return ("bool", v)
    if v is None:
        return ("none",)
    if isinstance(v, Pred):
        if v.text in be.region.preds:
            return ("bool", be.region.preds[v.text] != v.neg)
        return ("pred", repr(v))
    if isinstance(v, Top):
        return ("top", v.reason)
    l = be.as_lin(v)
    if l is not None:
        # 0/1-valued single predicate source == predicate
        if len(l.coefs) == 1 and l.const == 0:
            (s, c), = l.coefs.items()
            if s.startswith("[") and c == 1:
                return ("pred", s[1:-1])
        return ("lin", tuple(sorted(l.coefs.items())), l.const)
    return ("bits", repr(v))


def uncovered_reads(fn, pay, minlen, helper_of=None, _depth=0):
    """Forward walk of a parser with one fact - the lower bound on len(<pay>) - through its statements.  Yields (k, lo, node, fn) for every
    constant-index read `<pay>[k]`: lo is None when the read lies inside the established length, the established bound otherwise.
    Length tests understood: `if len(p) < N: return/raise`, `if len(p) >= N: ...`, conditional expressions and `and` chains with the same
    tests; reads under a handler for IndexError are skipped (the code deals with the short payload itself)."""
    out = []

    def is_len(e):
        return isinstance(e, ast.Call) and isinstance(e.func, ast.Name) and e.func.id == "len" and len(e.args) == 1 \
            and isinstance(e.args[0], ast.Name) and e.args[0].id == pay

    def refine(test, lo):
        """(lo when the test is true, lo when it is false)"""
        if isinstance(test, ast.UnaryOp) and isinstance(test.op, ast.Not):
            t_, f_ = refine(test.operand, lo)
            return f_, t_
        if isinstance(test, ast.BoolOp) and isinstance(test.op, ast.And):
            cur = lo
            for v in test.values:
                cur = refine(v, cur)[0]
            return cur, lo
        if isinstance(test, ast.Compare) and len(test.ops) == 1:
            l_, op, r_ = test.left, test.ops[0], test.comparators[0]
            flip = {ast.Lt: ast.Gt, ast.Gt: ast.Lt, ast.LtE: ast.GtE, ast.GtE: ast.LtE, ast.Eq: ast.Eq, ast.NotEq: ast.NotEq}
            if is_len(r_) and type(op) in flip:
                l_, r_, op = r_, l_, flip[type(op)]()
            if is_len(l_) and isinstance(r_, ast.Constant) and isinstance(r_.value, int) and not isinstance(r_.value, bool):
                n = r_.value
                if isinstance(op, ast.Lt):
                    return lo, max(lo, n)
                if isinstance(op, ast.LtE):
                    return lo, max(lo, n + 1)
                if isinstance(op, ast.GtE):
                    return max(lo, n), lo
                if isinstance(op, ast.Gt):
                    return max(lo, n + 1), lo
                if isinstance(op, ast.Eq):
                    return max(lo, n), lo
        return lo, lo

    def expr(e, lo):
        if e is None:
            return
        if isinstance(e, ast.IfExp):
            expr(e.test, lo)
            t_, f_ = refine(e.test, lo)
            expr(e.body, t_)
            expr(e.orelse, f_)
            return
        if isinstance(e, ast.BoolOp):
            cur = lo
            for v in e.values:
                expr(v, cur)
                cur = refine(v, cur)[0] if isinstance(e.op, ast.And) else refine(v, cur)[1]
            return
        if isinstance(e, ast.Subscript) and isinstance(e.value, ast.Name) and e.value.id == pay and isinstance(e.ctx, ast.Load):
            k = e.slice
            if isinstance(k, ast.UnaryOp) and isinstance(k.op, ast.USub) and isinstance(k.operand, ast.Constant) and isinstance(k.operand.value, int):
                need = k.operand.value
                out.append((-need, None if need <= lo else lo, e, fn))
            elif isinstance(k, ast.Constant) and isinstance(k.value, int) and not isinstance(k.value, bool):
                out.append((k.value, None if k.value < lo else lo, e, fn))
        if isinstance(e, ast.Call) and helper_of is not None and _depth < 3 and isinstance(e.func, ast.Attribute) and isinstance(e.func.value, ast.Name) \
                and e.func.value.id == fn.params[0]:
            h = helper_of(e.func.attr)
            if h is not None:
                for i, a in enumerate(e.args):
                    if isinstance(a, ast.Name) and a.id == pay and i + 1 < len(h.params):
                        out.extend(uncovered_reads(h, h.params[i + 1], lo, helper_of, _depth + 1))
        if isinstance(e, (ast.Lambda, ast.ListComp, ast.SetComp, ast.DictComp, ast.GeneratorExp)):
            pass
        for c in ast.iter_child_nodes(e):
            if isinstance(c, ast.expr):
                expr(c, lo)
            elif isinstance(c, ast.keyword):
                expr(c.value, lo)
            elif isinstance(c, ast.comprehension):
                expr(c.iter, lo)
                for i_ in c.ifs:
                    expr(i_, lo)

    def terminates(body):
        return bool(body) and isinstance(body[-1], (ast.Return, ast.Raise, ast.Continue, ast.Break))

    def block(stmts, lo):
        for st in stmts:
            if isinstance(st, ast.If):
                expr(st.test, lo)
                t_, f_ = refine(st.test, lo)
                a_ = block(st.body, t_)
                b_ = block(st.orelse, f_)
                outs = ([] if terminates(st.body) else [a_]) + ([] if terminates(st.orelse) else [b_])
                lo = min(outs) if outs else lo
            elif isinstance(st, (ast.For, ast.AsyncFor, ast.While)):
                expr(getattr(st, "iter", None) or getattr(st, "test", None), lo)
                block(st.body, lo)
                block(st.orelse, lo)
            elif isinstance(st, ast.Try):
                catches = any(h.type is None or any(isinstance(n_, (ast.Name, ast.Attribute)) and (getattr(n_, "id", None) or getattr(n_, "attr", None))
                                                    in ("IndexError", "LookupError", "Exception", "BaseException") for n_ in ast.walk(h.type))
                              for h in st.handlers)
                if not catches:
                    block(st.body, lo)
                for h in st.handlers:
                    block(h.body, lo)
                block(st.orelse, lo)
                block(st.finalbody, lo)
            elif isinstance(st, (ast.With, ast.AsyncWith)):
                for it in st.items:
                    expr(it.context_expr, lo)
                lo = block(st.body, lo)
            elif isinstance(st, ast.Assert):
                expr(st.test, lo)
                lo = refine(st.test, lo)[0]
            elif isinstance(st, (ast.FunctionDef, ast.AsyncFunctionDef, ast.ClassDef)):
                continue
            else:
                for c in ast.iter_child_nodes(st):
                    if isinstance(c, ast.expr):
                        expr(c, lo)
                # a rebinding of the payload name ends what is known about it
                for t in ast.walk(st):
                    if isinstance(t, ast.Name) and t.id == pay and isinstance(t.ctx, ast.Store):
                        return 10 ** 9
        return lo
    block(fn.node.body, minlen)
    return out


def run(ctx):
    prog = ctx.prog
    ctx.explanation = ("abstract interpretation of StateResponse._parse over an abstract payload built from the vendor 0xC0 layout "
                       "(sources over full raw domains, free don't-care bits, symbolic length), compared attribute by attribute with the "
                       "reported field in every guard region; linear-form analysis of _parse_temperature's decision tree; def-use mapping "
                       "through _update_state to the public getters")
    ctx.trusted = ["transcription of the vendor 0xC0 layout rows (Lua line cited per row)", "exact rationals stand for binary floats (halves, tenths)"]
    fn = ctx.fn(f"{SR}._parse")
    file = fn.module.rel
    # the sensor-temperature decoder: StateResponse._parse_temperature, or - when it was moved out of the class - the function whose result
    # _parse stores in indoor_temperature (kept as a function of its own, not seen through)
    TEMPQ, toff = f"{SR}._parse_temperature", 1
    if TEMPQ in prog.funcs and prog.funcs[TEMPQ].kind in ("function", "staticmethod"):
        toff = 0          # (the decoder as a staticmethod: no receiver among the arguments)
    if TEMPQ not in prog.funcs and prog.lookup_method(prog.cls(SR), "_parse_temperature") is None:
        from ..helpers import with_helpers
        for f_ in with_helpers(prog, fn):          # (_parse itself or a step it was split into)
            for n_ in ast.walk(f_.node):
                if isinstance(n_, ast.Assign) and isinstance(n_.value, ast.Call) and any(isinstance(t_, ast.Attribute) and t_.attr == "indoor_temperature" for t_ in n_.targets):
                    from ..helpers import resolve_call
                    r_ = prog.resolve_expr(f_.module, n_.value.func, f_.cls) or resolve_call(prog, f_, n_.value)
                    if r_ is not None and getattr(r_, "qual", None) in prog.funcs:
                        TEMPQ, toff = r_.qual, (0 if r_.kind in ("function", "staticmethod") else 1)
                        prog.extra_known = set(getattr(prog, "extra_known", ())) | {TEMPQ}
    s = summarize(prog, fn)
    self_p, pay_p = fn.params[0], fn.params[1]
    defaults = init_attrs(prog, prog.cls(SR))
    ini = ctx.fn(f"{SR}.__init__")
    # the constructor hands every payload of reportable length to _parse: its own rejections (raise / return before the parse) are limited
    # to payloads shorter than the shortest state response (16 bytes), and the call of _parse is not under any other condition
    MINLEN = 16
    si = summarize(prog, ini)
    ipay = ("param", ini.params[1]) if len(ini.params) > 1 else None

    def only_short(pc_):
        """the path is taken only by payloads shorter than MINLEN"""
        for a_ in atoms(pc_):
            a_ = strip(a_)
            if a_[0] == "cmp" and call_is(strip(a_[2]), "len") and unview(strip(a_[2])[2][0]) == ipay and is_const(a_[3]) and isinstance(a_[3][1], int):
                if (a_[1] == "<" and a_[3][1] <= MINLEN) or (a_[1] == "<=" and a_[3][1] < MINLEN) or (a_[1] == "==" and a_[3][1] < MINLEN):
                    return True
        return False

    def reaches_all(pc_):
        """the path condition holds for every payload of at least MINLEN bytes"""
        for a_ in atoms(pc_):
            a_ = strip(a_)
            if a_[0] == "cmp" and call_is(strip(a_[2]), "len") and unview(strip(a_[2])[2][0]) == ipay and is_const(a_[3]) and isinstance(a_[3][1], int) \
                    and ((a_[1] == ">=" and a_[3][1] <= MINLEN) or (a_[1] == ">" and a_[3][1] < MINLEN) or (a_[1] == "!=" and a_[3][1] < MINLEN)):
                continue
            return False
        return True
    early = [(pc_, n_) for pc_, _e, n_, _st in si.raises if n_ is not None and isinstance(n_, ast.Raise) and not only_short(pc_)]
    early += [(pc_, n_) for pc_, _t, n_, _st in si.returns if n_ is not None and not only_short(pc_)]
    parse_stmts = [n_ for n_ in ast.walk(ini.node) if isinstance(n_, ast.Expr) and isinstance(n_.value, ast.Call) and isinstance(n_.value.func, ast.Attribute)
                   and n_.value.func.attr == fn.name and n_ in si.ta.env_at]
    handed = any(reaches_all(si.ta.env_at[n_].pc) for n_ in parse_stmts)
    ctx.count("constructor_paths", len(si.returns) + len(si.raises))
    ctx.ob("C11.e", ini.qual, handed and not early, "StateResponse.__init__ parses every payload of 16 bytes or more (its own rejections are limited to shorter ones)",
           func=ini.qual, file=ini.module.rel, node=early[0][1] if early else None, construct="self._parse(payload)",
           fail=("the constructor rejects or skips state responses of reportable length " + (f"(`{norm(early[0][1])[:70]}` when " +
                 " and ".join(show(a_)[:40] for a_ in atoms(early[0][0])[-2:]) + ")" if early else "(the _parse call is conditional)") +
                 ": a legacy short response is dropped and refresh() exposes defaults instead of the reported state"))

    # ---- every fixed-offset read of the payload lies inside the length established on its path.  The shortest state response is MINLEN
    # bytes: a read of payload[k] with k >= MINLEN that no length test covers raises IndexError for a legal short response, the response is
    # dropped and none of the reported state reaches the attributes (whatever the read was for - a new field included)
    n_reads = 0
    sr_cls = prog.cls(SR)

    def helper_of(name):
        m_ = prog.lookup_method(sr_cls, name)
        return m_ if m_ is not None and m_.qual != fn.qual else None
    from ..paths import int_lower_bounds as _ilb
    from ..facts import cases as _cases
    _sums = {}

    def term_level_bound(where_, sub_):
        """lower bound on len(payload) from the path condition (terms: named constants folded, `n = len(payload)` seen through) of the
        statement that holds the read; None when the statement is not found"""
        if where_.qual not in _sums:
            _sums[where_.qual] = summarize(prog, where_)
        ws = _sums[where_.qual]
        best = None
        for sn, st_ in ws.ta.env_at.items():
            if isinstance(sn, ast.stmt) and not isinstance(sn, (ast.If, ast.For, ast.While, ast.Try, ast.With, ast.FunctionDef, ast.AsyncFunctionDef)) \
                    and any(x is sub_ for x in ast.walk(sn)):
                try:
                    cs_ = _cases(st_.pc) or [atoms(st_.pc)]
                except ValueError:
                    cs_ = [atoms(st_.pc)]
                lbs = []
                for facts in cs_:
                    b_ = 0
                    for t_, v_ in _ilb(facts).items():
                        if call_is(t_, "len") and t_[2] and unview(strip(t_[2][0]))[0] == "param":
                            b_ = max(b_, v_)
                    lbs.append(b_)
                best = min(lbs) if lbs else 0
        return best
    for k_, lo_, sub_, where_ in uncovered_reads(fn, pay_p, MINLEN, helper_of):
        n_reads += 1
        if lo_ is None:
            continue
        tb = term_level_bound(where_, sub_)
        need = (k_ + 1) if k_ >= 0 else -k_
        if tb is None or tb >= need:
            continue            # (covered by a test the syntactic walk does not read, or not locatable: not reported)
        ctx.ob("C11.b", where_.qual, False, "", func=where_.qual, file=where_.module.rel, node=sub_, construct=norm(sub_),
               fail=f"`{norm(sub_)}` is read where only len(payload) >= {lo_} is established: a legal {lo_}-byte state response raises IndexError and is dropped "
                    "(absent optional bytes must be reported as unknown, not read)")
    ctx.count("fixed_offset_reads", n_reads)
    ctx.ob("C11.b", fn.qual, True, f"{n_reads} fixed-offset payload reads, each inside the length established on its path (16-byte minimum, raised by the length tests)",
           func=fn.qual, file=file)

    # an attribute _parse leaves alone on some path still holds what __init__ stored
    untouched ={("attr", ("param", self_p), a): v for a, v in defaults.items()}

    def leaf(tm, be):
        if tm[0] == "ref":
            n = tm[1]
            if n in BOOL_FIELDS:
                if n in be.region.preds:
                    return bool(be.region.preds[n])        # this region has already decided the flag
                return Pred(n)
            return LinV({n: 1})
        if tm[0] == "sub" and strip(tm[1]) == ("param", pay_p) and is_const(tm[2]) and isinstance(tm[2][1], int):
            k = tm[2][1]
            if k < 0:
                return Top("negative payload index")
            # a read beyond the guaranteed length must be covered by a length fact of the region
            if k >= be.region.lo("len"):
                return Top(f"payload[{k}] read where only len >= {be.region.lo('len')} is established")
            return payload_byte(k)
        if call_is(tm, "len") and strip(tm[2][0]) == ("param", pay_p):
            return LinV({"len": 1})
        if call_is(tm, TEMPQ):
            return ("tempcall", tm)
        return None

    # ---- evaluate every return path in the regions where its path condition holds
    attr_names = sorted(set(EXPECTED) | set(TEMPS))
    n_regions = 0
    seen_attr = set()
    temp_calls = {}
    dec_scales = set()
    for pc, _t, node, rst in s.returns:
        all_terms = {}
        for a in attr_names:
            all_terms["A:" + a] = replace(rst.env.get(f"{self_p}.{a}", defaults.get(a, ("const", None))), untouched)
        for a, e in EXPECTED.items():
            all_terms["E:" + a] = e
        pct = pc_term(pc)

        def regions_of(names_):
            """guard regions of this return path for the named terms only (each attribute is decided in the regions *it* needs: attributes
            are independent of each other, so their case splits add up instead of multiplying)"""
            try:
                regs_ = eval_regions({**{k: all_terms[k] for k in names_}, "PC": pct}, leaf, Region(DOMAINS), max_regions=400)
            except RuntimeError as e:
                raise AnalysisError(f"{fn.qual}: {e}")
            out_ = []
            for r, vals, be in regs_:
                pcv = be.truth(vals["PC"]) if not isinstance(vals["PC"], bool) else vals["PC"]
                if pcv is False:
                    continue
                if pcv is not True:
                    raise AnalysisError(f"{fn.qual}: path condition not decided in region: {vals['PC']}")
                out_.append((r, vals, be))
            return out_

        def rdesc_of(r):
            return f"len∈{r.domains['len']}, t_alt∈{r.domains['t_alt']}, display∈{r.domains['display']}" + (f", {r.describe()}" if r.preds else "")
        for a in EXPECTED:
            for r, vals, be in regions_of(["A:" + a, "E:" + a]):
                n_regions += 1
                rdesc = rdesc_of(r)
                got, want = vals["A:" + a], vals["E:" + a]
                g, w = norm_val(got, be), norm_val(want, be)
                seen_attr.add(a)
                ok = g == w
                ctx.ob("C11.a" if a not in ("target_humidity", "freeze_protection") else "C11.b", fn.qual, ok,
                       f"[{rdesc}] {a} = {got!r} equals the reported field {want!r}", func=fn.qual, file=file,
                       construct=f"self.{a} = {show(rst.env.get(f'{self_p}.{a}', ('const', None)))[:70]}",
                       fail=f"[{rdesc}] self.{a} decodes to {got!r}, the device reported {want!r}")
        for a, (raw, tenths) in TEMPS.items():
            for r, vals, be in regions_of(["A:" + a]):
                v = vals["A:" + a]
                seen_attr.add(a)
                if isinstance(v, tuple) and v and v[0] == "tempcall":
                    tc = v[1]
                    args = tc[2]
                    a0 = be.ev(args[toff]) if len(args) > toff else None
                    a1 = be.ev(args[toff + 1]) if len(args) > toff + 1 else None
                    a2 = be.ev(args[toff + 2]) if len(args) > toff + 2 else None
                    # the tenths digit is handed over either as the digit or already scaled (digit / 10); the function is then checked for the
                    # scale its call sites use
                    sc_ = next((sc for sc in (Fraction(1, 10), Fraction(1)) if norm_val(a1, be) == norm_val(LinV({tenths: sc}), be)), None)
                    if sc_ is not None:
                        dec_scales.add(sc_)
                    ok = norm_val(a0, be) == norm_val(LinV({raw: 1}), be) and sc_ is not None \
                        and norm_val(a2, be) == norm_val(Pred("fahrenheit"), be)
                    ctx.ob("C11.c", fn.qual, ok, f"{a} = _parse_temperature({raw}, {tenths}/10, fahrenheit)", func=fn.qual, file=file,
                           construct=f"self.{a} call-site binding", detail={"args": [repr(a0), repr(a1), repr(a2)]},
                           fail=f"{a} is parsed from ({a0!r}, {a1!r}, {a2!r}) instead of ({raw}, {tenths}/10, fahrenheit)")
                    temp_calls[a] = True
                else:
                    ctx.ob("C11.c", fn.qual, False, "", func=fn.qual, file=file, construct=f"self.{a}",
                           fail=f"{a} is not computed by _parse_temperature from its raw byte and tenths nibble: {v!r}")
    ctx.count("regions", n_regions)
    ctx.count("attributes", len(seen_attr))
    ctx.count("temperature_call_sites", len(temp_calls))

    # ---------------------------------------------------------------- C11.c _parse_temperature
    pt = ctx.fn(TEMPQ)
    ps = summarize(prog, pt)
    dp, decp, fp = pt.params[toff], pt.params[toff + 1], pt.params[toff + 2]
    tdom = {"d": [(0, 255)], "tenths": [(0, 9)]}
    if len(dec_scales) > 1:
        raise AnalysisError(f"{pt.qual}: call sites pass the tenths digit in different scales")
    dec_scale = next(iter(dec_scales)) if dec_scales else Fraction(1, 10)
    T_FORM = LinV({"d": Fraction(1, 2)}, -25)
    import math
    from ..bits import Region as _Region
    _Region.DERIVED = {"trunc": ("d", lambda d: math.trunc(Fraction(d, 2) - 25))}

    def tleaf(tm, be):
        if tm == ("param", dp):
            return LinV({"d": 1})
        if tm == ("param", decp):
            return LinV({"tenths": dec_scale})
        if tm == ("param", fp):
            return Pred("fahrenheit")
        if call_is(tm, "int") and len(tm[2]) == 1:
            inner = be.ev(tm[2][0])
            if isinstance(inner, LinV) and inner == T_FORM:
                return LinV({"trunc": 1})
        return None
    n_leaves = 0
    for pc, t, node, _st in ps.returns:
        if node is None:
            continue
        try:
            regs = eval_regions({"RET": t, "PC": pc_term(pc)}, tleaf, Region(tdom), max_regions=200)
        except RuntimeError as e:
            raise AnalysisError(f"{pt.qual}: {e}")
        for r, vals, be in regs:
            pcv = vals["PC"] if isinstance(vals["PC"], bool) else be.truth(vals["PC"])
            if pcv is False:
                continue
            if pcv is not True:
                raise AnalysisError(f"{pt.qual}: path condition not decided in region: {vals['PC']}")
            n_leaves += 1
            dlo, dhi = r.lo("d"), r.hi("d")
            tlo, thi = r.lo("tenths"), r.hi("tenths")
            fahr = r.preds.get("fahrenheit")
            rdesc = f"raw∈[{dlo},{dhi}], tenths∈[{tlo},{thi}], fahrenheit={fahr}"
            res = vals["RET"]
            sentinel = dlo == dhi == 255
            if dlo <= 255 <= dhi and not sentinel:
                # the code did not distinguish 0xFF here: split ourselves
                sub_regs = r.split("d", 255)
            is_none = res is None
            ctx.ob("C11.c", pt.qual, is_none == sentinel, f"[{rdesc}] result is {'None' if is_none else 'a number'}: unknown exactly for the 0xFF sentinel",
                   func=pt.qual, file=file, node=node,
                   fail=f"[{rdesc}] " + ("a temperature is invented for the 0xFF sentinel" if sentinel else "None is returned for a valid raw value"))
            if is_none or sentinel:
                continue
            if dlo <= 255 <= dhi:
                ctx.ob("C11.c", pt.qual, False, "", func=pt.qual, file=file, node=node, fail=f"[{rdesc}] the 0xFF sentinel shares a path with valid raw values")
                continue
            l = be.as_lin(res)
            if l is None or isinstance(res, Top):
                ctx.ob("C11.c", pt.qual, False, "", func=pt.qual, file=file, node=node, fail=f"[{rdesc}] result {res!r} is not a linear form of (raw, trunc, tenths)")
                continue
            a = l.coefs.get("trunc", Fraction(0))
            b = l.coefs.get("d", Fraction(0))
            c = l.coefs.get("tenths", Fraction(0))
            k = l.const
            others = [s_ for s_ in l.coefs if s_ not in ("trunc", "d", "tenths")]
            pos = dlo >= 50
            neg = dhi < 50
            if not (pos or neg) and a != 0:
                ctx.ob("C11.c", pt.qual, False, "", func=pt.qual, file=file, node=node, fail=f"[{rdesc}] trunc() used across the sign change without a sign test")
                continue
            # result − t with trunc = t + δ, δ ∈ [−1/2, 0] (t >= 0) or [0, 1/2] (t < 0); t = d/2 − 25
            dcoef = a / 2 + b - Fraction(1, 2)
            const = k + 25 - 25 * a
            dl, dh = (Fraction(-1, 2), Fraction(0)) if pos else (Fraction(0), Fraction(1, 2))
            lo_ = min(a * dl, a * dh) + min(c * tlo, c * thi) + const
            hi_ = max(a * dl, a * dh) + max(c * tlo, c * thi) + const
            ok2 = dcoef == 0 and not others and lo_ >= -1 and hi_ <= 1
            ctx.ob("C11.c", pt.qual, ok2, f"[{rdesc}] result − (raw−50)/2 ∈ [{lo_}, {hi_}] ⊆ [−1, 1]  (result = {l})", func=pt.qual, file=file, node=node,
                   fail=f"[{rdesc}] result {l} can be more than one degree away from the coarse reading (raw−50)/2"
                        + ("" if dcoef == 0 else " (its slope in raw is wrong)"))
            if fahr is False and tlo >= 1:
                sign = 1 if pos else -1
                want = LinV({"trunc": 1, "tenths": Fraction(sign, 10)})
                ctx.ob("C11.c", pt.qual, l == want, f"[{rdesc}] Celsius with a tenths digit: result = trunc(t) {'+' if pos else '−'} tenths/10", func=pt.qual,
                       file=file, node=node, fail=f"[{rdesc}] in Celsius the reported tenths digit is not reflected exactly: result = {l}, expected {want}")
    ctx.count("temperature_leaves", n_leaves)

    # ---------------------------------------------------------------- C11.d device mapping
    us = ctx.fn(f"{AC}._update_state")
    uss = summarize(prog, us)
    sp, rp = us.params[0], us.params[1]
    ac = prog.cls(AC)

    # the dispatch on the response class: a branch for a class placed behind the branch of one of its base classes never runs - responses of
    # the subclass are applied by the base-class branch as if they were full reports (fields they do not carry overwrite the state)
    def classes_of(test):
        if isinstance(test, ast.Call) and isinstance(test.func, ast.Name) and test.func.id == "isinstance" and len(test.args) == 2 \
                and isinstance(test.args[0], ast.Name) and test.args[0].id == rp:
            elts = test.args[1].elts if isinstance(test.args[1], ast.Tuple) else [test.args[1]]
            out_ = [prog.resolve_expr(us.module, e_, us.cls) for e_ in elts]
            return None if any(o_ is None or not hasattr(o_, "methods") for o_ in out_) else out_
        return None
    for top in us.node.body:
        earlier = []
        cur_ = top
        while isinstance(cur_, ast.If):
            ks = classes_of(cur_.test)
            if ks is None:
                break
            dead = [k_ for k_ in ks if any(b_ in prog.mro(k_) for b_ in earlier)]
            ctx.count("dispatch_branches")
            if dead and len(dead) == len(ks):
                base_ = next(b_ for b_ in earlier if b_ in prog.mro(dead[0]))
                ctx.ob("C11.d", us.qual, False, "", func=us.qual, file=us.module.rel, node=cur_.test, construct=norm(cur_.test),
                       fail=f"the branch for {dead[0].name} is placed behind the branch of its base class {base_.name} and never runs: a {dead[0].name} "
                            f"is applied as a full {base_.name} (fields it does not carry overwrite the exposed state)")
            earlier += ks
            cur_ = cur_.orelse[0] if len(cur_.orelse) == 1 else None

    def res_attr(n):
        return ("attr", ("param", rp), n)
    # final value of each backing attribute on the StateResponse branch: gather from the ite-gated return env
    final = None
    for _pc, _t, _n, rst in uss.returns:
        final = rst
    MAP = {"_power_state": "power_on", "_target_temperature": "target_temperature", "_eco": "eco", "_turbo": "turbo",
           "_freeze_protection": "freeze_protection", "_sleep": "sleep", "_indoor_temperature": "indoor_temperature",
           "_outdoor_temperature": "outdoor_temperature", "_display_on": "display_on", "_fahrenheit_unit": "fahrenheit",
           "_filter_alert": "filter_alert", "_follow_me": "follow_me", "_purifier": "purifier", "_target_humidity": "target_humidity"}
    GETTERS = {"_power_state": "power_state", "_target_temperature": "target_temperature", "_eco": "eco", "_turbo": "turbo",
               "_freeze_protection": "freeze_protection", "_sleep": "sleep", "_indoor_temperature": "indoor_temperature",
               "_outdoor_temperature": "outdoor_temperature", "_display_on": "display_on", "_fahrenheit_unit": "fahrenheit",
               "_filter_alert": "filter_alert", "_follow_me": "follow_me", "_purifier": "purifier", "_target_humidity": "target_humidity",
               "_operational_mode": "operational_mode", "_fan_speed": "fan_speed", "_swing_mode": "swing_mode", "_aux_mode": "aux_mode"}

    def state_branch_value(key):
        """value stored on the isinstance(res, StateResponse) branch: first alternative of the outer ite gate"""
        v = final.env.get(f"{sp}.{key}") if final else None
        while v is not None and v[0] == "ite":
            c = v[1]
            if call_is(c, "isinstance") and strip(c[2][0]) == ("param", rp) and c[2][1] == ("global", SR):
                return v[2]
            if any(call_is(x, "isinstance") and x[2][1] == ("global", SR) for x in [c]):
                return v[2]
            # nested gates from the other isinstance branches: the StateResponse test is the outermost
            v = v[2] if any(call_is(x, "isinstance") and x[2][1] == ("global", SR) for x in subterms(c)) else None
        return v
    # ... on *every* way through the StateResponse branch: a way out that skips the stores (an early return for a response that "looks
    # unchanged", a cache hit) leaves attributes that differ from what this response reports
    from ..facts import atoms as _atoms
    for pc_, _t, n_, rst_ in uss.returns:
        sr_path = any(call_is(a_, "isinstance") and len(a_[2]) == 2 and strip(a_[2][0]) == ("param", rp) and a_[2][1] == ("global", SR) for a_ in _atoms(pc_))
        if not sr_path:
            continue
        missing = sorted(k_ for k_ in GETTERS if f"{sp}.{k_}" not in rst_.env)
        ctx.ob("C11.d", us.qual, not missing, "every way through the StateResponse branch stores every state attribute", func=us.qual, file=us.module.rel, node=n_,
               detail={"not_stored": missing},
               fail=f"a state response can leave {len(missing)} attribute(s) as they were ({', '.join(missing[:4])}, ...): the state exposed is not the state reported")
    for key, ra in MAP.items():
        v = state_branch_value(key)
        ctx.count("mapped_attributes")
        ctx.ob("C11.d", us.qual, v is not None and strip(v) == res_attr(ra), f"self.{key} = res.{ra}", func=us.qual, file=us.module.rel,
               construct=f"self.{key} <- res.{ra}", detail={"stored": show(v) if v else None},
               fail=f"self.{key} receives `{show(v)[:60] if v else None}` instead of res.{ra}")
    for key, (enum, ra) in {"_operational_mode": ("OperationalMode", "operational_mode"), "_swing_mode": ("SwingMode", "swing_mode")}.items():
        v = state_branch_value(key)
        vv = strip(v) if v else None
        ok = vv is not None and call_is(vv, "msmart.utils.MideaIntEnum.get_from_value") and strip(vv[2][-1]) == res_attr(ra) and \
            vv[2][0] == ("global", f"{AC}.{enum}") if vv and len(vv[2]) == 2 else False
        ctx.count("mapped_attributes")
        ctx.ob("C11.d", us.qual, bool(ok), f"self.{key} = {enum}.get_from_value(res.{ra}) (total mapping with the documented default)", func=us.qual,
               file=us.module.rel, construct=f"self.{key} <- {enum}(res.{ra})", detail={"stored": show(v) if v else None},
               fail=f"self.{key} is not {enum}.get_from_value(res.{ra}): `{show(v)[:80] if v else None}`")
    # fan speed: custom -> FanSpeed(raw) with raw fallback; else get_from_value
    v = state_branch_value("_fan_speed")
    fan_ok = False
    if v is not None:
        def leaves(x):
            if x[0] == "ite":
                return leaves(x[2]) | leaves(x[3])
            return {strip(x)}
        raw = res_attr("fan_speed")
        ctor = ("call", ("func", f"{AC}.FanSpeed"), (raw,), ())
        vv = strip(v)
        flag = ("attr", ("param", sp), "_supports_custom_fan_speed")
        if vv[0] == "ite" and any(strip(x) == flag for x in subterms(vv)):
            def norm_leaf(x):
                if call_is(x, f"{AC}.FanSpeed") and len(x[2]) == 1 and strip(x[2][0]) == raw:
                    return ctor
                return x
            # the value under each setting of the capability flag (however the branches are nested / ordered)
            custom = {norm_leaf(x) for x in leaves(simplify(vv, [flag]))}
            other = leaves(simplify(vv, [("un", "not", flag)]))
            gfv_ok = len(other) == 1 and all(call_is(x, "msmart.utils.MideaIntEnum.get_from_value") and x[2][0] == ("global", f"{AC}.FanSpeed")
                                             and strip(x[2][-1]) == raw for x in other)
            fan_ok = custom == {ctor, raw} and gfv_ok
            # ... and the fallback is reached for the exception FanSpeed(<non-member>) raises: a ValueError
            from ..helpers import ancestor_chains
            fs_sites = ancestor_chains(prog, us, lambda f_, n: norm(n.func).endswith("FanSpeed") and len(n.args) == 1)
            for _f, _n, chains in fs_sites:
                for ch in chains:
                    tr_ = next((x for x, fld in ch if isinstance(x, ast.Try) and fld == "body"), None)
                    caught = tr_ is not None and any(
                        h.type is None or {norm(e_) for e_ in (h.type.elts if isinstance(h.type, ast.Tuple) else [h.type])} & {"ValueError", "Exception", "BaseException"}
                        for h in tr_.handlers)
                    fan_ok = fan_ok and caught
    # (FanSpeed(<unknown>) raises only as long as no `_missing_` hook in the enum's hierarchy maps unknown values to a member)
    fsc = prog.classes.get(f"{AC}.FanSpeed")
    hooked = [k.qual for k in (prog.mro(fsc) if fsc is not None else []) if "_missing_" in k.methods]
    fan_ok = fan_ok and not hooked
    ctx.count("mapped_attributes")
    ctx.ob("C11.d", us.qual, fan_ok, "fan speed: FanSpeed(raw) with raw-integer fallback when custom speeds are supported, else get_from_value", func=us.qual,
           file=us.module.rel, construct="self._fan_speed mapping", detail={"stored": show(v)[:200] if v else None},
           fail="fan-speed mapping lost the custom-speed fallback / the enum mapping / the capability gate")
    # aux mode decision tree
    v = state_branch_value("_aux_mode")
    want = ("ite", res_attr("independent_aux_heat"), ("enum", f"{AC}.AuxHeatMode", "AUX_ONLY", 2),
            ("ite", res_attr("aux_heat"), ("enum", f"{AC}.AuxHeatMode", "AUX_HEAT", 1), ("enum", f"{AC}.AuxHeatMode", "OFF", 0)))
    ctx.count("mapped_attributes")
    ctx.ob("C11.d", us.qual, v == want, "aux mode: AUX_ONLY if independent aux heat, else AUX_HEAT if aux heat, else OFF", func=us.qual, file=us.module.rel,
           construct="self._aux_mode decision tree", detail={"stored": show(v)[:200] if v else None},
           fail=f"aux-mode decision tree changed: `{show(v)[:120] if v else None}`")
    # getters
    for key, prop in GETTERS.items():
        g = ac.methods.get(prop)
        ok = False
        if g is not None and g.kind == "property":
            gt = summarize(prog, g).return_term()
            ok = strip(gt) == ("attr", ("param", g.params[0]), key)
        ctx.count("getters")
        ctx.ob("C11.d", f"{AC}.{prop}", ok, f"public `{prop}` returns self.{key}", func=f"{AC}.{prop}", file=ac.module.rel, construct=f"{prop} getter",
               fail=f"public property `{prop}` does not return self.{key}")
    # ---------------------------------------------------------------- C11.e both trailing check styles are accepted
    rv = ctx.fn(f"{CMD}.Response.validate")
    rvs = summarize(prog, rv)
    p2 = rv.params[-1]
    last = ("sub", ("param", p2), ("const", -1))
    for pc, exc, node, _st in rvs.raises:
        facts = atoms(pc)
        crc_ne = any(f[0] == "cmp" and f[1] == "!=" and ((call_is(strip(f[2]), "msmart.crc8.calculate") and strip(f[3]) == last) or (call_is(strip(f[3]), "msmart.crc8.calculate") and strip(f[2]) == last)) for f in facts)
        sum_ne = any(f[0] == "cmp" and f[1] == "!=" and ((call_is(strip(f[2]), "msmart.frame.Frame.checksum") and strip(f[3]) == last) or (call_is(strip(f[3]), "msmart.frame.Frame.checksum") and strip(f[2]) == last)) for f in facts)
        ctx.count("body_check_rejections")
        ctx.ob("C11.e", rv.qual, crc_ne and sum_ne, "a state response is rejected only when its check byte matches neither the CRC-8 nor the additive checksum (both device styles decode)",
               func=rv.qual, file=rv.module.rel, node=node, detail={"facts": [show(f)[:100] for f in facts]},
               fail="responses using one of the two trailing check styles (CRC-8 / additive) are rejected: the rejection does not require *both* checks to fail")
    # a reported state is only exposed if its (valid) frame is accepted: the outer checksum the validator recomputes is the 8-bit two's
    # complement for every byte sum (C12.a) - a formula that is off for one residue drops 1 report in 256
    from . import c12
    ctx.import_rules(c12, "t12", only=("C12.a",))
    # every valid response of a refresh is applied: the _update_state call in refresh's loop is not skipped for some responses (an
    # "unchanged payload" shortcut leaves attributes that apply() or a setter wrote in between)
    rf = ctx.fn(f"{AC}.refresh")
    rfs = summarize(prog, rf)
    n_us = 0
    for n_ in ast.walk(rf.node):
        if isinstance(n_, ast.Expr) and isinstance(n_.value, ast.Call) and isinstance(n_.value.func, ast.Attribute) and n_.value.func.attr == us.name and n_ in rfs.ta.env_at:
            loops_ = [l_ for l_ in ast.walk(rf.node) if isinstance(l_, (ast.For, ast.AsyncFor)) and any(x is n_ for x in ast.walk(l_))]
            if not loops_:
                continue
            n_us += 1
            head_pc = rfs.loops[loops_[-1]]["head"].pc if loops_[-1] in rfs.loops else ()
            extra = [c_ for c_ in rfs.ta.env_at[n_].pc if c_ not in head_pc]
            ctx.ob("C11.d", rf.qual, not extra, "refresh applies every response it collected (the _update_state call in the loop is unconditional)", func=rf.qual, file=rf.module.rel,
                   node=n_, detail={"condition": [show(c_[0])[:80] for c_ in extra]},
                   fail="refresh skips _update_state for some responses (`" + "; ".join(show(c_[0])[:60] for c_ in extra[:2]) + "`): a reported state is not exposed")
    # ... and in the order the device reported them: refresh applies the frames of an exchange one after the other, so "the attributes equal the
    # reported values" means the values of the *latest* report - LAN.send hands the frames back in arrival order (queued before the request,
    # the response, queued after it); a reordering lets a stale unsolicited report overwrite the reply to this refresh
    from ._pipeline import result_in_arrival_order
    result_in_arrival_order(ctx, "C11.d")
    ctx.count("refresh_update_sites", n_us)
    ctx.require_min("body_check_rejections", 1)
    ctx.require_min("regions", 6)
    ctx.require_min("attributes", 19)
    ctx.require_min("temperature_call_sites", 2)
    ctx.require_min("temperature_leaves", 3)
    ctx.require_min("mapped_attributes", 18)
    ctx.require_min("getters", 18)
