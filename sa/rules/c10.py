"""C10 - control command encodes exactly the requested state (vendor bit layout).

The body of SetStateCommand.tobytes is evaluated in the bit-field domain over the declared domains of all settable
fields at once, path-split into guard regions (integral set-point inside / outside 17..30, half-degree flag).  Then:

  C10.a  round trip per field: the vendor reference *decode* of the 0x40 body (Lua control builder l.3286-3445 and
         binToModel l.1664-1836, rows below) applied to the abstract body yields the source field itself over its whole
         domain -> a left inverse for every field, hence distinct states give distinct bodies
  C10.b  independence: no output bit carries two sources (| collision), no mask is lossy on the declared domain
  C10.c  range: every body byte fits [0,255] for every state of the domain
Reference note: alternate set-point codes decode with +12 over the whole 13..43 range the property states (the Lua's
−19 branch serves set-points below 13 °C and is self-inconsistent at 38; documented in DESIGN.md).
"""
from __future__ import annotations
import ast

from fractions import Fraction

from ..bits import Bits, BitEval, LinV, NeedSplit, Pred, Region, Top, eval_regions
from ..facts import call_is, strip
from ..model import norm, AnalysisError
from ..reference import lua_keyb, lua_text
from ..terms import is_const, show, summarize

CMD = "msmart.device.AC.command"
SET = f"{CMD}.SetStateCommand"
AC = "msmart.device.AC.device.AirConditioner"

BOOLS = ["beep_on", "power_on", "eco", "turbo", "fahrenheit", "sleep", "freeze_protection", "follow_me", "purifier", "aux_heat",
         "force_aux_heat", "independent_aux_heat"]

# Reference layout of the 0x40 body: byte -> [(lo, width, expected atom)]; every other bit must be zero.
#   ('one',) constant 1 | ('pred', field) | ('src', field, 0) | ('any',) don't-care (vendor features msmart may or may not set)
REF = {
    0: [(0, 8, ("const", 0x40))],                                              # BYTE_CONTROL_CMD, Lua l.281/3294
    1: [(0, 1, ("pred", "power_on")), (1, 1, ("one",)), (6, 1, ("pred", "beep_on"))],   # power | CLIENT_MODE_MOBILE 0x02 | buzzer 0x40, l.3296
    2: [(5, 3, ("src", "operational_mode", 0)), (4, 1, ("half",)), (0, 4, ("setpoint-primary",))],   # l.3299-3303
    3: [(0, 7, ("src", "fan_speed", 0)), (7, 1, ("any",))],                    # fan | TIMER_SWITCH_ON (decode masks 0x7F), l.3304/1698
    4: [(0, 8, ("const", 0x7F))], 5: [(0, 8, ("const", 0x7F))], 6: [(0, 8, ("const", 0x00))],   # timers off, l.3325-3337
    7: [(0, 4, ("src", "swing_mode", 0)), (4, 2, ("ones",))],                  # swing LR|UD | 0x30, l.3341
    8: [(5, 1, ("pred", "turbo")), (7, 1, ("pred", "follow_me")), (0, 2, ("zero",))],   # strong wind 0x20, l.3343 (follow-me: MideaUART)
    9: [(3, 1, ("pred", "aux_heat")), (4, 1, ("pred", "force_aux_heat")), (5, 1, ("pred", "purifier")), (7, 1, ("pred", "eco"))],  # l.3345-3348
    10: [(0, 1, ("pred", "sleep")), (1, 1, ("pred", "turbo")), (2, 1, ("pred", "fahrenheit"))],   # l.3350-3361
    18: [(0, 5, ("setpoint-alt",))],                                           # l.3412-3418
    19: [(0, 7, ("src", "target_humidity", 0))],                               # smartDryValue & 0x7F, l.3421
    21: [(7, 1, ("pred", "freeze_protection"))],                               # degree8_heat << 7, l.3431
    22: [(3, 1, ("pred", "independent_aux_heat"))],                            # independent_ptc 0x08, l.966/3438
}
N_BODY = 24


def bit_atoms(v, be):
    """bit index -> atom description for a byte value (Bits / int / LinV)."""
    if isinstance(v, bool):
        v = int(v)
    if isinstance(v, int):
        return {i: ("one",) for i in range(v.bit_length()) if (v >> i) & 1}
    if isinstance(v, (LinV, Pred)):
        v = be.to_bits(v)
    if isinstance(v, Top):
        return None
    out = {}
    for lo, w, atom in v.fields:
        for i in range(w):
            out[lo + i] = atom + ((i,) if atom[0] == "src" else ())
    return out


def run(ctx):
    prog = ctx.prog
    ctx.explanation = ("abstract interpretation of SetStateCommand.tobytes in a bit-field / linear-form domain over the declared domains "
                       "of every settable field simultaneously, split into guard regions; the vendor reference decode is applied to the "
                       "abstract body and must return each source field")
    ctx.trusted = ["transcription of the vendor layout rows (each cites its Lua line; constants re-read from the Lua on every run)"]
    keyb = lua_keyb(lua_text(prog.root))
    ref_ok = (keyb.get("BYTE_CONTROL_CMD") == 0x40 and keyb.get("BYTE_CLIENT_MODE_MOBILE") == 0x02 and keyb.get("BYTE_BUZZER_ON") == 0x40
              and keyb.get("BYTE_POWER_ON") == 0x01 and keyb.get("BYTE_STRONG_WIND_ON") == 0x20 and keyb.get("BYTE_ECO_ON") == 0x80
              and keyb.get("BYTE_PURIFIER_ON") == 0x20 and keyb.get("BYTE_PTC_ON") == 0x08 and keyb.get("BYTE_MODE_SMART_DRY") == 0xC0
              and keyb.get("BYTE_MODE_AUTO") == 0x20 and keyb.get("BYTE_SWING_LR_ON") == 0x03 and keyb.get("BYTE_SWING_UD_ON") == 0x0C)
    ctx.ob("C10.ref", "reference", ref_ok, "vendor constants the layout rows rely on are what the Lua in /repo/reference states",
           fail="the vendor Lua no longer states the constants the reference rows were transcribed from")
    fn = ctx.fn(f"{SET}.tobytes")
    file = fn.module.rel
    s = summarize(prog, fn)
    rets = [(t, n) for _pc, t, n, _ in s.returns if n is not None]
    if len(rets) != 1:
        raise AnalysisError(f"{fn.qual}: expected a single return")
    t = rets[0][0]
    if not (call_is(t, f"{CMD}.Command.tobytes") and len(t[2]) == 2):
        raise AnalysisError(f"{fn.qual}: return is not super().tobytes(<body>) (C12 reports that); cannot evaluate the body")
    body = strip(t[2][1])
    items = None
    if call_is(body, "bytes", "bytearray") and body[2] and strip(body[2][0])[0] in ("list", "tuple"):
        items = list(strip(body[2][0])[1])
    if items is None:
        # any other spelling of the same byte sequence (b"".join / + / constants / bytes(n)): per-byte view of its layout
        from ..seq import Layouts, explode
        ex = explode(Layouts(prog).layout(body))
        if ex is not None and all(x[0] in ("c", "t") for x in ex):
            items = [("const", x[1]) if x[0] == "c" else x[1] for x in ex]
    if items is None:
        raise AnalysisError(f"{fn.qual}: body is not bytes([...]) of per-byte expressions: {show(body)[:80]}")
    ctx.ob("C10.a", fn.qual, len(items) == N_BODY, f"body has {N_BODY} bytes before id/CRC", func=fn.qual, file=file, construct="body length",
           fail=f"body has {len(items)} bytes, the vendor control body has {N_BODY} before the message id")
    ctx.count("body_bytes", len(items))
    ac = prog.cls(AC)
    mode_vals = sorted(set(prog.enum_canonical(ac.nested["OperationalMode"]).values()))
    swing_vals = sorted(set(prog.enum_canonical(ac.nested["SwingMode"]).values()))
    domains = {
        "operational_mode": [(min(mode_vals), max(mode_vals))], "fan_speed": [(1, 102)], "swing_mode": [(min(swing_vals), max(swing_vals))],
        "target_humidity": [(0, 100)], "int(T)": [(13, 43)], "half(T)": [(0, 1)],
    }
    self_p = fn.params[0]
    from ..ctor import init_attrs
    cmd_defaults = init_attrs(prog, fn.cls) if fn.cls is not None else {}
    extras = set()

    def leaf(tm, be):
        if tm[0] == "attr" and tm[1] == ("param", self_p):
            n = tm[2]
            if n in BOOLS:
                return Pred(n)
            if n in domains:
                return LinV({n: 1})
            if n == "target_temperature":
                return LinV({"int(T)": 1, "half(T)": Fraction(1, 2)})
            if strip(cmd_defaults.get(n, ("top",))) in (("const", False), ("const", True)):
                # a flag the command class itself declares (default off / on) beyond the state the property lists: one more boolean source.  It
                # may occupy bits the reference rows leave unclaimed; it may not share a bit with a listed field (collision check below)
                extras.add(n)
                return Pred(n)
            return Top(f"attribute {n} has no declared domain")
        if tm[0] == "item" and call_is(strip(tm[1]), "math.modf"):
            arg = strip(strip(tm[1])[2][0])
            if arg == ("attr", ("param", self_p), "target_temperature"):
                return LinV({"half(T)": Fraction(1, 2)}) if tm[2] == 0 else LinV({"int(T)": 1})
        return None

    terms = {f"b{i}": it for i, it in enumerate(items)}
    try:
        regions = eval_regions(terms, leaf, Region(domains))
    except RuntimeError as e:
        raise AnalysisError(f"{fn.qual}: {e}")
    ctx.count("regions", len(regions))
    ctx.extra["regions"] = [{k: v for k, v in r.domains.items() if k in ("int(T)", "half(T)")} for r, _v, _b in regions]
    fields_checked = set()
    for r, vals, be in regions:
        rdesc = f"int(T)∈{r.domains['int(T)']}, half={r.domains['half(T)']}"
        for msg in be.collisions:
            ctx.ob("C10.b", fn.qual, False, "", func=fn.qual, file=file, construct=f"collision: {msg}", fail=f"[{rdesc}] two sources share an output bit: {msg}")
        for msg in be.lossy:
            ctx.ob("C10.b", fn.qual, False, "", func=fn.qual, file=file, construct=f"lossy: {msg}", fail=f"[{rdesc}] a mask truncates a field on its declared domain: {msg}")
        # per-byte comparison with the reference rows
        alt_v = prim_v = half_v = None
        for i in range(len(items)):
            v = vals[f"b{i}"]
            if isinstance(v, Top):
                ctx.ob("C10.a", fn.qual, False, "", func=fn.qual, file=file, construct=f"byte {i}: {show(items[i])[:60]}",
                       fail=f"[{rdesc}] body byte {i} is not a function of the declared fields: {v.reason}")
                continue
            atoms_ = bit_atoms(v, be)
            if atoms_ is None:
                ctx.ob("C10.a", fn.qual, False, "", func=fn.qual, file=file, construct=f"byte {i}", fail=f"[{rdesc}] byte {i} cannot be placed in bits: {v}")
                continue
            top = max(atoms_.keys(), default=-1)
            ctx.ob("C10.c", fn.qual, top < 8, f"[{rdesc}] byte {i} fits 8 bits", func=fn.qual, file=file, construct=f"byte {i} range",
                   fail=f"[{rdesc}] byte {i} can exceed 255 (bit {top} set): bytes([...]) raises ValueError for some states")
            rows = REF.get(i, [])
            expected = {}
            for lo, w, spec in rows:
                for k in range(w):
                    if spec[0] == "const":
                        if (spec[1] >> (lo + k)) & 1:
                            expected[lo + k] = ("one",)
                    elif spec[0] in ("one", "ones"):
                        expected[lo + k] = ("one",)
                    elif spec[0] == "pred":
                        expected[lo + k] = ("pred", spec[1])
                    elif spec[0] == "src":
                        expected[lo + k] = ("src", spec[1], spec[2], k)
                    elif spec[0] == "any":
                        expected[lo + k] = ("any",)
                    elif spec[0] in ("half", "setpoint-primary", "setpoint-alt"):
                        expected[lo + k] = (spec[0], k)
                    elif spec[0] == "zero":
                        pass
            for b in range(8):
                want, got = expected.get(b), atoms_.get(b)
                if want is not None and want[0] in ("half", "setpoint-primary", "setpoint-alt"):
                    continue
                if want is not None and want[0] == "any":
                    continue
                ok = want == got
                if want is None and got is not None and got[0] == "pred" and got[1] in extras:
                    ok = True          # (an additional flag in a bit the listed state does not use)
                if want is not None and want[0] == "src" and got is not None and got[0] == "src":
                    ok = got[1] == want[1] and got[2] == want[2] and got[3] == want[3]
                if want is not None and want[0] == "src" and got is None:
                    # high bits of a field the domain never sets are simply absent
                    hi = r.hi(want[1]) + want[2]
                    ok = (hi >> want[3]) == 0
                if not ok:
                    ctx.ob("C10.a", fn.qual, False, "", func=fn.qual, file=file, construct=f"byte {i} bit {b}: {show(items[i])[:60]}",
                           fail=f"[{rdesc}] byte {i} bit {b} carries {got}, the vendor layout has {want}")
            for lo, w, spec in rows:
                if spec[0] in ("pred", "src"):
                    fields_checked.add(spec[1])
            if i == 2:
                sub = be.band(v, 0x0F)
                prim_v = be.as_lin(sub) if not isinstance(sub, Top) else None
                hb = be.shr(be.band(v, 0x10), 4)
                half_v = hb
            if i == 18:
                sub = be.band(v, 0x1F)
                alt_v = be.as_lin(sub) if not isinstance(sub, Top) else None
                extra = {b: a for b, a in atoms_.items() if b >= 5}
                for b, a in extra.items():
                    ctx.ob("C10.a", fn.qual, False, "", func=fn.qual, file=file, construct=f"byte 18 bit {b}", fail=f"[{rdesc}] byte 18 bit {b} carries {a}; the vendor layout has zero (pmv bits unused)")
        # reference decode of the set-point
        ctx.count("setpoint_regions")
        ok_t = False
        why = ""
        if alt_v is not None and prim_v is not None:
            alo, ahi = be.lin_range(alt_v)
            if ahi == 0:
                dec = prim_v.add(16)
                ok_t = dec == LinV({"int(T)": 1})
                why = f"alt = 0, T = primary + 16 = {dec}"
            elif alo >= 1:
                dec = alt_v.add(12)
                ok_t = dec == LinV({"int(T)": 1})
                why = f"alt ≠ 0, T = alt + 12 = {dec}"
            else:
                why = f"alternate code {alt_v} can be zero and non-zero inside one guard region: the decoder cannot tell which rule applies"
        else:
            why = "set-point fields are not single source fields"
        ctx.ob("C10.a", fn.qual, ok_t, f"[{rdesc}] reference decode of the set-point returns int(T): {why}", func=fn.qual, file=file,
               construct=f"set-point integral part in region int(T)∈{r.domains['int(T)']}",
               fail=f"[{rdesc}] vendor decode of the integral set-point does not return the requested value: {why}")
        hv = half_v
        hc = hv.to_const() if isinstance(hv, Bits) else (hv if isinstance(hv, int) else None)
        want_half = r.domains["half(T)"]
        ok_h = hc is not None and want_half == [(hc, hc)]
        ctx.ob("C10.a", fn.qual, ok_h, f"[{rdesc}] half-degree bit b2[4] = {hc} equals the requested half flag", func=fn.qual, file=file,
               construct=f"half-degree bit in region half={want_half}", fail=f"[{rdesc}] half-degree bit is {hv}, requested half flag is {want_half}")
        fields_checked |= {"target_temperature"}
        ctx.sample({"region": rdesc, "b1": repr(vals["b1"]), "b2": repr(vals["b2"]), "b9": repr(vals["b9"]), "b18": repr(vals["b18"])})
    need = {"power_on", "beep_on", "operational_mode", "fan_speed", "swing_mode", "turbo", "follow_me", "aux_heat", "purifier", "eco", "sleep",
            "fahrenheit", "target_humidity", "freeze_protection", "independent_aux_heat", "target_temperature"}
    ctx.count("fields", len(fields_checked & need))
    ctx.ob("C10.a", fn.qual, need <= fields_checked, f"all {len(need)} settable fields have a reference row with a left inverse",
           func=fn.qual, file=file, construct="field coverage", fail=f"fields without a decoded row: {sorted(need - fields_checked)}")
    # ---- C10.f the state the command encodes is the state that was requested: setter -> attribute -> apply -> command attribute, unchanged
    # (unknown values only are replaced by the documented defaults)
    from ._chains import apply_chains
    apply_chains(ctx, "C10.f")
    # the state requested on the command line is the state apply() encodes: nothing refreshes the device object between the assignments
    # and apply (C20.e; the CLI is one of the public ways to request a state)
    from . import c20
    ctx.import_rules(c20, "t20", only=("C20.e",))
    # ---- C10.g the command is a snapshot of the attributes as they were when apply() was called: between entry and the last read into the
    # SetStateCommand there is no suspension point.  An await before the command is complete (pending properties sent first, a refresh, a lock
    # that is held) lets _update_state - fed by the responses of that exchange or by a concurrent refresh - overwrite the requested values,
    # and the control command then encodes the unit's old state.
    from ..atomic import sections, simple
    ap_ = ctx.fn("msmart.device.AC.device.AirConditioner.apply")
    cmd_names = set()

    def _constructs(n):
        return any(isinstance(c, ast.Call) and isinstance(c.func, (ast.Name, ast.Attribute)) and
                   (c.func.id if isinstance(c.func, ast.Name) else c.func.attr) == "SetStateCommand" for c in ast.walk(n))
    from ..helpers import with_helpers as _wh
    for f_ in _wh(prog, ap_):
        for n in ast.walk(f_.node):
            if isinstance(n, ast.Assign) and _constructs(n.value):
                cmd_names |= {t.id for t in n.targets if isinstance(t, ast.Name)}

    def _fills(n):
        if not simple(n):
            return False
        if _constructs(n):
            return True
        tg = n.targets if isinstance(n, ast.Assign) else ([n.target] if isinstance(n, (ast.AugAssign, ast.AnnAssign)) else [])
        return any(isinstance(t, ast.Attribute) and isinstance(t.value, ast.Name) and t.value.id in cmd_names for t in tg)
    sec = sections(prog, ap_, None, _fills, from_entry=True)
    ctx.count("snapshot_statements", len(sec))
    for n_, dirty in sec.items():
        ctx.ob("C10.g", ap_.qual, not dirty, "the control command is filled from the attributes before apply() first suspends (a snapshot of the requested state)",
               func=ap_.qual, file=ap_.module.rel, node=n_, detail={"suspension_points": dirty},
               fail=f"`{norm(n_)[:50]}` reads the requested state only after `{dirty[0] if dirty else ''}`: responses processed during that await (an unsolicited state "
                    "report, a concurrent refresh) overwrite the attributes first, and the command encodes the unit's old state instead of the requested one")
    # ... and apply() itself leaves the requested state alone: it stores none of the attributes it reads into the command (only the setters and
    # the response handlers do).  A field switched off "for the duration of" an await and restored afterwards is wrong in every command a
    # concurrent apply() builds meanwhile, and stays wrong when the await is cancelled.
    read_attrs = set()
    for n_ in sec:
        v_ = getattr(n_, "value", None)
        if v_ is not None:
            read_attrs |= {x.attr for x in ast.walk(v_) if isinstance(x, ast.Attribute) and isinstance(x.value, ast.Name) and x.value.id == ap_.params[0] and x.attr.startswith("_")}
    own_stores = []
    for f_ in _wh(prog, ap_):
        for n in ast.walk(f_.node):
            tg = n.targets if isinstance(n, ast.Assign) else ([n.target] if isinstance(n, (ast.AugAssign, ast.AnnAssign)) else [])
            flat = []
            for t in tg:
                flat += list(t.elts) if isinstance(t, (ast.Tuple, ast.List)) else [t]
            for t in flat:
                if isinstance(t, ast.Attribute) and isinstance(t.value, ast.Name) and t.value.id == f_.params[0] and t.attr in read_attrs:
                    own_stores.append((f_, n, t.attr))
    # (a single store is a one-shot request being consumed after it was sent - `self._filter_reset = False`; the shape that is reported is a value
    #  changed and changed back: two or more stores to one encoded attribute inside apply())
    per_attr = {}
    for f_, n, a_ in own_stores:
        per_attr.setdefault(a_, []).append((f_, n, a_))
    own_stores = [x for a_, xs in sorted(per_attr.items()) if len(xs) >= 2 for x in xs]
    ctx.count("requested_state_attributes", len(read_attrs))
    ctx.ob("C10.g", ap_.qual, not own_stores, "apply() does not change an attribute it encodes and change it back (the requested state is written by the setters and the response handlers)",
           func=ap_.qual, file=ap_.module.rel, node=own_stores[0][1] if own_stores else None,
           fail=(f"apply() itself stores self.{own_stores[0][2]} (`{norm(own_stores[0][1])[:60]}`): a command built while that value is in place - by a concurrent "
                 "apply(), or by every later one when the await in between is cancelled - encodes it instead of the requested state") if own_stores else "")
    ctx.require_min("snapshot_statements", 1)
    from ._chains import transparent_deprecated
    transparent_deprecated(ctx, "C10.f")          # (the old setting names are the same setters)
    ctx.require_min("body_bytes", 24)
    ctx.require_min("regions", 4)
    ctx.require_min("fields", 16)
