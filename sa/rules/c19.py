"""C19 - cloud token retrieval follows the API contract, returns only matching credentials.

  C19.a  signature covers the final body: in NetHomePlusCloud._api_request the `sign` field is the last mutation of the
         body before the post and is computed over that body; sign = sha256(path ‖ unquote_plus(urlencode(sorted(items))) ‖
         APP_KEY).hexdigest(); _build_request_body carries sessionId (the value login stored from the response) and stamp;
         login obtains the login id first and sends sha256(loginId ‖ sha256(password).hex ‖ APP_KEY).hex
  C19.b  exact-match selection: get_token returns entry["token"], entry["key"] of the *same* loop element whose udpId
         compared *equal* to the requested id, and raises CloudError after the loop
  C19.c  retry and error mapping: _post_request for budgets 1..3 with the post / status check / response parser as
         environment oracles: attempts ∈ [1, R]; every exit by exception is a CloudError (ApiError ⊂ CloudError)
  C19.d  two byte orders: _authenticate_device iterates exactly ["little", "big"], derives udpid(id.to_bytes(6, order)),
         authenticates with the token/key fetched for that udpid, continues on AuthenticationError, returns true on the
         first success; Security.udpid = xor of the two halves of sha256(id)
"""
from __future__ import annotations

import ast

from ..facts import digest_parts, cases, simplify, atoms, call_is, meth_is, strip
from ..model import AnalysisError, norm
from ..retry import Explorer
from ..terms import is_const, show, subterms, summarize
from .c08 import counter_names

CL = "msmart.cloud"
NH = f"{CL}.NetHomePlusCloud"
BASE = f"{CL}.BaseCloud"
CLOUDERR = f"{CL}.CloudError"
DISC = "msmart.discover.Discover"


def run(ctx):
    prog = ctx.prog
    ctx.explanation = ("value-flow terms of the signing / body-building / selection code; retry-loop exploration of _post_request with the HTTP "
                       "client as a non-deterministic oracle; value-flow of the per-byte-order credentials in _authenticate_device")
    ctx.trusted = ["acceptance by the real service is not decided", "httpx exception hierarchy (parsed from the installed package)"]
    # ---------------------------------------------------------------- C19.a
    ar = ctx.fn(f"{NH}._api_request")
    file = ar.module.rel
    s = summarize(prog, ar)
    ep, bp = ar.params[1], ar.params[2]
    posts = [t for n, t in s.ta.terms_at.items() if isinstance(n, ast.Call) and call_is(t, f"{BASE}._post_request")]
    if not posts:
        # the post handed to a helper (one that takes the API lock, say): its call is in the value the helper call was seen through to
        seen_p = []
        for t in s.ta.terms_at.values():
            for x in subterms(t):
                if call_is(x, f"{BASE}._post_request") and x not in seen_p:
                    seen_p.append(x)
        posts = seen_p
    ctx.count("post_sites", len(posts))
    for c in posts:
        fd = dict(c[3]).get("form_data")
        ok = fd is not None and fd[0] == "store" and fd[1] == ("param", bp) and fd[2] == ("const", "sign") and meth_is(fd[3], "sign") \
            and fd[3][2] == (("param", ep), ("param", bp)) and strip(fd[3][1][1]) == ("attr", ("param", ar.params[0]), "_security")
        ctx.ob("C19.a", ar.qual, bool(ok), "the posted form is body ∪ {sign: sign(endpoint, body)}: the signature is the last mutation and covers every other field",
               func=ar.qual, file=file, construct='body["sign"] = ...', detail={"form_data": show(fd)[:200] if fd else None},
               fail=f"the posted body is `{show(fd)[:140] if fd else None}`: the signature is not computed last over the body that is sent")
        url = c[2][1] if len(c[2]) > 1 else None
        ctx.ob("C19.a", ar.qual, url is not None and url[0] == "fstr" and ("param", ep) in url[1] and any(strip(x) == ("attr", ("param", ar.params[0]), "_base_url") for x in url[1]),
               "request URL = base url + the signed endpoint", func=ar.qual, file=file, construct="url", fail="the request is posted to a URL other than base_url + endpoint")
    sg = ctx.fn(f"{NH}._Security.sign")
    st = summarize(prog, sg).return_term()
    up, dp = sg.params[1], sg.params[2]
    appkey = prog.fold_or_none(prog.cls(f"{NH}._Security").attrs.get("APP_KEY"), prog.module(CL), prog.cls(f"{NH}._Security"))
    def hexdigest_parts(t):
        """(alg, hashed parts) of X.hexdigest() / X.digest().hex() for the hashlib spellings digest_parts knows"""
        t = strip(t)
        if meth_is(t, "hex") and not t[2]:
            return digest_parts(strip(t[1][1]))
        return digest_parts(t) if meth_is(t, "hexdigest") else None

    def text_of(b):
        """the text whose ASCII encoding b is: m.encode("ASCII") / bytes(m, "ASCII")"""
        if b[0] == "call" and b[1][0] == "meth" and b[1][2] == "encode" and b[2] == (("const", "ASCII"),):
            return b[1][1]
        if b[0] == "call" and b[1] == ("ext", "bytes") and len(b[2]) == 2 and b[2][1] == ("const", "ASCII"):
            return b[2][0]
        return None

    def concat(x, out):
        x = strip(x)
        if x[0] == "bin" and x[1] == "+":
            concat(x[2], out), concat(x[3], out)
        elif x[0] == "fstr":
            for y in x[1]:
                concat(y, out)
        else:
            out.append(x)
        return out
    hp = hexdigest_parts(st)
    msg = text_of(hp[1][0]) if hp is not None and hp[0] == "sha256" and len(hp[1]) == 1 else None
    want_parts = [("attr", ("call", ("ext", "urllib.parse.urlparse"), (("param", up),), ()), "path"),
                  ("call", ("ext", "urllib.parse.unquote_plus"), (("call", ("ext", "urllib.parse.urlencode"), (("call", ("ext", "sorted"), (("call", ("meth", ("param", dp), "items"), (), ()),), ()),), ()),), ()),
                  ("const", appkey)]
    st, want = (concat(msg, []) if msg is not None else None), want_parts
    ctx.ob("C19.a", sg.qual, st == want and appkey == "3742e9e5842d4ad59c2db887e12449f9", "sign = sha256(path ‖ unquote_plus(urlencode(sorted(items))) ‖ APP_KEY).hexdigest()",
           func=sg.qual, file=file, construct="sign", detail={"hashed_text_parts": [show(x)[:80] for x in (st or [])]},
           fail=f"the request signature is not sha256 over path ‖ sorted query ‖ APP_KEY: hashes `{[show(x)[:60] for x in (st or [])]}`")
    epw = ctx.fn(f"{NH}._Security.encrypt_password")
    et = summarize(prog, epw).return_term()
    lp, pp = epw.params[1], epw.params[2]
    # outer = sha256(loginId ‖ inner ‖ APP_KEY).hex with inner = sha256(password).hex, whichever hashlib spelling is used
    def sha_hex_text(t):
        h = hexdigest_parts(t)
        return text_of(h[1][0]) if h is not None and h[0] == "sha256" and len(h[1]) == 1 else None
    outer = sha_hex_text(et)
    oparts = concat(outer, []) if outer is not None else []
    inner = sha_hex_text(oparts[1]) if len(oparts) == 3 else None
    et_norm = (oparts[0], strip(inner) if inner is not None else None, oparts[2]) if len(oparts) == 3 else None
    et, wantp = et_norm if et_norm is not None else et, (("param", lp), ("param", pp), ("const", appkey))
    ctx.ob("C19.a", epw.qual, et == wantp, "password field = sha256(loginId ‖ sha256(password).hex ‖ APP_KEY).hex", func=epw.qual, file=file, construct="encrypt_password",
           detail={"term": show(et)[:260]}, fail=f"the login password derivation is `{show(et)[:200]}`")
    # the SmartHome cloud (the other region family of the same login flow) salts with the login key of the selected server
    SH = "msmart.cloud.SmartHomeCloud"
    shp = ctx.fn(f"{SH}._Security.encrypt_password")
    sht = summarize(prog, shp).return_term()
    s_outer = sha_hex_text(sht)
    s_parts = concat(s_outer, []) if s_outer is not None else []
    s_inner = sha_hex_text(s_parts[1]) if len(s_parts) == 3 else None
    KEYS = {True: "ad0ee21d48a64bf49f4fb583ab76e799", False: "ac21b9f9cbfe4ca5a88562ef25e2b768"}

    def login_key_ok(x, recv):
        """x is the login key of the selected server: the china key iff the client was created for the china server"""
        x = strip(x)
        flag = ("attr", ("param", recv), "_use_china_server")
        if x[0] == "ite" and strip(x[1]) == flag:
            return strip(x[2]) == ("const", KEYS[True]) and strip(x[3]) == ("const", KEYS[False])
        if x[0] == "ite" and strip(x[1]) == ("un", "not", flag):
            return strip(x[3]) == ("const", KEYS[True]) and strip(x[2]) == ("const", KEYS[False])
        return False
    salt = s_parts[2] if len(s_parts) == 3 else None
    salt_ok = False
    if salt is not None:
        if strip(salt) == ("attr", ("param", shp.params[0]), "_login_key"):
            lk = prog.funcs.get(f"{SH}._Security._login_key")
            salt_ok = lk is not None and login_key_ok(summarize(prog, lk).return_term(), lk.params[0])
        else:
            salt_ok = login_key_ok(salt, shp.params[0])
    sh_ok = len(s_parts) == 3 and strip(s_parts[0]) == ("param", shp.params[1]) and s_inner is not None and strip(s_inner) == ("param", shp.params[2]) and salt_ok
    ctx.ob("C19.a", shp.qual, sh_ok, "SmartHome password field = sha256(loginId ‖ sha256(password).hex ‖ login key of the selected server).hex", func=shp.qual, file=file,
           construct="SmartHome encrypt_password", detail={"term": show(sht)[:260]},
           fail=f"the SmartHome login password derivation is `{show(sht)[:200]}` (the salt must be the login key of the selected server: the china key on the china server)")
    bb = ctx.fn(f"{NH}._build_request_body")
    bt = summarize(prog, bb).return_term()
    # body.update(data) / body |= data / {**body, **data}: the caller's fields are merged over the base body
    mg = (bt[2], bt[3]) if bt[0] == "mut" and bt[1] == "update" else ((bt[2], (bt[3],)) if bt[0] == "bin" and bt[1] == "|" else None)
    bb_ok = mg is not None and call_is(mg[0], f"{BASE}._build_request_body") and tuple(strip(x) for x in mg[1]) == (("param", bb.params[1]),) and \
        any(x[0] == "dict" and any(k == ("const", "sessionId") and strip(v) == ("attr", ("param", bb.params[0]), "_session_id") for k, v in x[1]) for x in subterms(mg[0]))
    if not bb_ok and call_is(bt, f"{BASE}._build_request_body") and bt[2]:
        # the caller's fields merged into the argument instead: BASE({"sessionId": sid, **data}) - the same mapping, since the base body is
        # `defaults.update(argument)` (checked below)
        a_ = strip(bt[2][-1])
        bb_ok = a_[0] == "mut" and a_[1] == "update" and tuple(strip(x) for x in a_[3]) == (("param", bb.params[1]),) and strip(a_[2])[0] == "dict" and \
            any(k == ("const", "sessionId") and strip(v) == ("attr", ("param", bb.params[0]), "_session_id") for k, v in strip(a_[2])[1])
    ctx.ob("C19.a", bb.qual, bb_ok, "every request body carries sessionId = self._session_id plus the caller's fields", func=bb.qual, file=file, construct="_build_request_body",
           detail={"term": show(bt)[:200]}, fail="request bodies no longer carry the stored session id and the caller's fields")
    b0 = ctx.fn(f"{BASE}._build_request_body")
    b0t = summarize(prog, b0).return_term()
    keys = set()
    for x in subterms(b0t):
        if x[0] == "dict":
            keys |= {k[1] for k, _v in x[1] if k[0] == "const"}
    stamp_ok = "stamp" in keys and any(call_is(x, f"{BASE}._timestamp") for x in subterms(b0t)) and {"appId", "src", "format", "clientType", "language", "deviceId"} <= keys
    ctx.ob("C19.a", b0.qual, stamp_ok and ((b0t[0] == "mut" and b0t[1] == "update") or (b0t[0] == "bin" and b0t[1] == "|")), "base body carries appId/src/format/clientType/language/deviceId/stamp and the caller's fields",
           func=b0.qual, file=file, construct="BaseCloud._build_request_body", detail={"keys": sorted(keys)}, fail=f"base request body fields changed: {sorted(keys)}")
    lg = ctx.fn(f"{NH}.login")
    ls = summarize(prog, lg)
    sp = lg.params[0]
    sid_ok = pw_ok = False
    for pc, t, n, rst in ls.returns:
        v = rst.env.get(f"{sp}._session_id")
        if v is not None and any(x[0] == "sub" and x[2] == ("const", "sessionId") and any(call_is(y, f"{NH}._api_request") for y in subterms(x[1])) for x in subterms(v)):
            sid_ok = True
    from ..helpers import term_lookup, with_helpers
    ltl = term_lookup(prog, lg)
    login_calls = [(n2, ltl(n2)) for f2 in with_helpers(prog, lg) for n2 in ast.walk(f2.node) if isinstance(n2, ast.Call) and ltl(n2) is not None]
    for n, t in login_calls:
        if isinstance(n, ast.Call) and meth_is(t, "encrypt_password") and len(t[2]) == 2:
            a0 = strip(t[2][0])
            lid_src = a0 == ("attr", ("param", sp), "_login_id") or any(call_is(x, f"{BASE}._get_login_id") for x in subterms(a0))
            pw_ok = lid_src and strip(t[2][1]) == ("attr", ("param", sp), "_password")
    # ... the password *sent* is that derivation, made for this request: every value the "password" field of the login body can take is an
    # encrypt_password(<this login's id>, password) - not a copy kept from an earlier login (a forced re-login gets a new login id)
    def _ite_leaves(x):
        x = strip(x)
        return _ite_leaves(x[2]) + _ite_leaves(x[3]) if x[0] == "ite" else [x]
    n_pwf = 0
    for _n2, t2 in login_calls:
        for x in subterms(t2):
            if x[0] == "dict":
                for k_, v_ in x[1]:
                    if strip(k_) == ("const", "password"):
                        n_pwf += 1
                        stale = [lf for lf in _ite_leaves(v_) if not (meth_is(lf, "encrypt_password") and len(lf[2]) == 2)]
                        if stale:
                            pw_ok = False
                            ctx.ob("C19.a", lg.qual, False, "", func=lg.qual, file=file, construct="login body: password",
                                   fail=f"the password field of the login request can be `{show(stale[0])[:60]}` - a value kept from an earlier login - instead of the "
                                        "derivation from this login's id: a forced re-login with a new login id is rejected by a conforming server")
    ctx.count("login_password_fields", n_pwf)
    lid_first = any(call_is(t, f"{BASE}._get_login_id") for n, t in login_calls)
    ctx.ob("C19.a", lg.qual, sid_ok and pw_ok and lid_first, "login fetches the login id, sends the derived password, and stores the response's sessionId for later requests",
           func=lg.qual, file=file, construct="login", fail="login no longer derives the password from the login id / stores the session id of the response")
    # ---------------------------------------------------------------- C19.b
    gt = ctx.fn(f"{BASE}.get_token")
    gs = summarize(prog, gt)
    up = gt.params[1]
    n_ret = 0
    for pc, t, node, rst in gs.returns:
        if node is None:
            continue
        n_ret += 1
        ok = True
        detail = {"returns": show(t)[:200], "facts": [show(f)[:120] for f in atoms(pc)]}
        # every case of the path condition (a search helper's Optional result arrives as a gated value): the value returned in
        # that case is the (token, key) of the entry that the case compared equal to the requested udpid
        for facts in cases(pc):
            tc = strip(simplify(t, facts))
            ok_case = False
            if tc[0] == "tuple" and len(tc[1]) == 2:
                a, b = strip(tc[1][0]), strip(tc[1][1])
                if a[0] == "sub" and b[0] == "sub" and a[2] == ("const", "token") and b[2] == ("const", "key") and a[1] == b[1] and strip(a[1])[0] == "iter":
                    elem = a[1]
                    ok_case = any(f[0] == "cmp" and f[1] == "==" and {strip(f[2]), strip(f[3])} == {("sub", elem, ("const", "udpId")), ("param", up)} for f in facts)
                    lst = strip(strip(elem)[1])
                    ok_case = ok_case and lst[0] == "sub" and lst[2] == ("const", "tokenlist")
            ok = ok and ok_case
        ctx.ob("C19.b", gt.qual, ok, "returned (token, key) belong to the list entry whose udpId == the requested udpid", func=gt.qual, file=file, node=node, detail=detail,
               fail="get_token can return credentials of an entry that was not compared equal to the requested udpid (substring / first entry / other element)")
    ctx.count("token_returns", n_ret)
    after = [exc for pc, exc, node, _st in gs.raises if exc != "AssertionError"]
    ctx.ob("C19.b", gt.qual, bool(after) and all(prog.exc_is(e, CLOUDERR) for e in after), "no match -> CloudError", func=gt.qual, file=file, construct="raise CloudError",
           fail="a missing entry does not surface as a CloudError")
    falls = [1 for pc, t, node, _ in gs.returns if node is None]
    ctx.ob("C19.b", gt.qual, not falls, "get_token cannot fall off its end (returning None instead of credentials)", func=gt.qual, file=file, construct="end of get_token",
           fail="get_token can return None when no entry matches")
    # ---------------------------------------------------------------- C19.c
    pr = ctx.fn(f"{BASE}._post_request")
    loops = [n for n in ast.walk(pr.node) if isinstance(n, ast.While)]
    from ..retry import loop_budget, loop_env
    if not loops:
        # the retry loop written as `for left in range(retries, 0, -1)` / `for attempt in range(retries)`: the budget is the parameter in the range
        loops = [n for n in ast.walk(pr.node) if isinstance(n, ast.For) and isinstance(n.iter, ast.Call) and isinstance(n.iter.func, ast.Name) and n.iter.func.id == "range"
                 and any(isinstance(x, ast.Name) and x.id in pr.params for a in n.iter.args for x in ast.walk(a))]
    if len(loops) != 1:
        raise AnalysisError(f"{pr.qual}: expected one retry loop")
    loop = loops[0]
    if isinstance(loop, ast.For):
        ctr = sorted({x.id for a in loop.iter.args for x in ast.walk(a) if isinstance(x, ast.Name) and x.id in pr.params})
        if len(ctr) != 1:
            raise AnalysisError(f"{pr.qual}: the range of the retry loop does not depend on exactly one parameter")
    else:
        ctr = loop_budget(pr, loop)

    def classify(c):
        f = c.func
        if isinstance(f, ast.Attribute) and f.attr == "post":
            return ("oracle", "post", ["httpx.ReadTimeout", "httpx.ConnectError"])
        if isinstance(f, ast.Attribute) and f.attr == "raise_for_status":
            return ("oracle", "status", ["httpx.HTTPStatusError"])
        if isinstance(f, ast.Attribute) and f.attr == "_parse_response":
            return ("oracle", "parse", [f"{CL}.ApiError"])
        return None
    for R in (1, 2, 3):
        ex = Explorer(prog, pr, classify, {ctr[0]: R})
        paths = ex.run([loop], loop_env(pr, loop, ctr[0], R), ())
        ctx.count("budgets")
        ctx.count("paths", len(paths))
        for p in paths:
            tr = p.trace
            n_post = len([x for x in tr if x.startswith("post:")])
            desc = " ".join(tr)
            ok = 1 <= n_post <= R and p.kind != "diverge"
            if p.kind == "raise":
                ok = ok and prog.exc_is(p.exc, CLOUDERR)
            elif p.kind in ("return",):
                ok = ok and "parse:ok" in tr
            else:
                ok = False      # the loop ended without a result and without raising
            ctx.ob("C19.c", pr.qual, ok, f"R={R}: {n_post} attempt(s) ∈ [1,{R}], outcome {p.kind} {(p.exc or '').split('.')[-1]} [{desc}]", func=pr.qual, file=file,
                   construct=f"budget {R}: {desc[:70]}",
                   fail=f"budget {R}: path [{desc}] makes {n_post} attempts and ends with {p.kind} {p.exc or ''} (allowed: ≤ {R} attempts, result or CloudError)")
        if R == 2:
            ctx.sample({"budget": R, "paths": [repr(p) for p in paths][:10]})
    for qn in (f"{NH}._parse_response",):
        pf = ctx.fn(qn)
        for pc, exc, node, _st in summarize(prog, pf).raises:
            ctx.ob("C19.c", qn, prog.exc_is(exc, CLOUDERR), f"API error codes raise {exc.split('.')[-1]} (a CloudError)", func=qn, file=file, node=node,
                   fail=f"API error codes raise {exc}, not a CloudError")
            ctx.count("api_errors")
    # the result is handed out exactly when the server said errorCode 0; any other code is the ApiError (a conforming client does not use the
    # `result` of a failed call, and does not turn a success into an error)
    pf = ctx.fn(f"{NH}._parse_response")
    pfs = summarize(prog, pf)

    def code_zero(a):
        a = strip(a)
        return a[0] == "cmp" and a[1] == "==" and is_const(a[3], 0) and any(x[0] == "sub" and strip(x[2]) == ("const", "errorCode") for x in subterms(a[2]))
    rets_ = [(pc, t) for pc, t, n_, _st in pfs.returns if n_ is not None]
    ok_pr = bool(rets_) and all(any(code_zero(a) for a in atoms(pc)) and strip(t)[0] == "sub" and strip(strip(t)[2]) == ("const", "result") for pc, t in rets_) \
        and any(any(strip(a)[0] == "cmp" and strip(a)[1] == "!=" and code_zero(("cmp", "==", strip(a)[2], strip(a)[3])) for a in atoms(pc)) for pc, _e, _n, _st in pfs.raises) \
        and not any(n_ is None for _pc, _t, n_, _st in pfs.returns)
    ctx.ob("C19.c", pf.qual, ok_pr, "_parse_response returns body['result'] exactly when errorCode == 0 and raises otherwise", func=pf.qual, file=file, construct="errorCode test",
           fail="_parse_response no longer returns the result exactly for errorCode 0 (a failed call's result is used, a success is reported as an error, or None is returned)")
    # HTTP failures surface as cloud errors: the status check stands between the post and the parser on every path
    from ..absint import EventAnalysis, run_events as _run_events
    pr_ = ctx.fn(f"{BASE}._post_request")

    def on_stmt_rs(node, st):
        if isinstance(node, (ast.If, ast.While, ast.For, ast.AsyncFor, ast.Try, ast.With, ast.AsyncWith)):
            return []
        if any(isinstance(c, ast.Call) and isinstance(c.func, ast.Attribute) and c.func.attr == "raise_for_status" for c in ast.walk(node)):
            return ["status_checked"]
        return []
    ea_rs = EventAnalysis(must=True, on_stmt=on_stmt_rs, kill=lambda node, e: e == "status_checked" and not isinstance(node, (ast.If, ast.While, ast.For, ast.Try, ast.With, ast.AsyncWith))
                          and any(isinstance(c, ast.Call) and isinstance(c.func, ast.Attribute) and c.func.attr == "post" for c in ast.walk(node)))
    _run_events(prog, pr_, ea_rs)
    parse_stmts = [n_ for n_ in ea_rs.at if isinstance(n_, ast.stmt) and not isinstance(n_, (ast.If, ast.While, ast.For, ast.Try, ast.With, ast.AsyncWith, ast.AsyncFor))
                   and any(isinstance(c, ast.Call) and isinstance(c.func, ast.Attribute) and c.func.attr == "_parse_response" for c in ast.walk(n_))]
    ctx.count("parse_sites", len(parse_stmts))
    ctx.ob("C19.c", pr_.qual, bool(parse_stmts) and all("status_checked" in ea_rs.at[n_] for n_ in parse_stmts), "every response is status-checked (raise_for_status) before it is parsed",
           func=pr_.qual, file=file, construct="r.raise_for_status()", fail="a response can reach the parser without the HTTP status check: an HTTP failure is parsed as if it were an API reply "
                                                                            "(and surfaces as a JSON / key error instead of a CloudError)")
    # login really logs in: it returns early only when a session exists
    early = [(pc, n_) for pc, _t, n_, _st in ls.returns if n_ is not None]

    def has_session(pc):
        from ..facts import alternatives as _alts
        for c_, tr_ in pc:
            alts = _alts(strip(c_), tr_)
            if alts and all(any(strip(a) in (("attr", ("param", sp), "_session"), ("attr", ("param", sp), "_session_id")) for a in alt) for alt in alts):
                return True
        return False
    ctx.ob("C19.a", lg.qual, all(has_session(pc) for pc, _n in early), "login returns without a request only when a session already exists", func=lg.qual, file=file,
           construct="early return", node=early[0][1] if early else None,
           fail="login can return without logging in although no session exists: later requests carry an empty session id")
    # ---------------------------------------------------------------- C19.a (shared client) only a logged-in client is cached
    # Discover._get_cloud keeps the client for every later device of the run: caching it before login() has completed hands later
    # devices a client without a session after one transient login failure.
    gcl = ctx.fn(f"{DISC}._get_cloud")
    from ..absint import EventAnalysis, run_events

    def on_login(node, st):
        if isinstance(node, (ast.FunctionDef, ast.AsyncFunctionDef)):
            return []
        return ["logged_in"] if any(isinstance(c, ast.Call) and isinstance(c.func, ast.Attribute) and c.func.attr == "login" for c in ast.walk(node)) else []
    eal = EventAnalysis(must=True, on_stmt=on_login)
    run_events(prog, gcl, eal)
    n_cache = 0
    for node, st in eal.at.items():
        if isinstance(node, ast.Assign) and any(isinstance(t, ast.Attribute) and t.attr == "_cloud" and isinstance(t.value, ast.Name) and t.value.id in (gcl.params[0], "Discover")
                                                for t in node.targets) and not (isinstance(node.value, ast.Constant) and node.value.value is None):
            n_cache += 1
            ctx.ob("C19.a", gcl.qual, "logged_in" in st, "the shared cloud client is cached only after its login() completed", func=gcl.qual, file=gcl.module.rel, node=node,
                   fail="the cloud client is cached before login() has completed: after a failed first login later devices use a client without a session")
    ctx.count("cloud_cache_stores", n_cache)
    # ... and it is the client of *this* run's account: discover() stores the region and credentials every later _get_cloud of the run logs in
    # with; a client cached by an earlier discover() is dropped there, unless the test that keeps it compares region, account and password
    # with the ones it was created for (with the default credentials account and password are None for every region)
    dsf = ctx.fn(f"{DISC}.discover")
    dss_ = summarize(prog, dsf)
    cp = dsf.params[0]
    KEYS = {"_region": "region", "_account": "account", "_password": "password"}

    def kept_under(t, gates=()):
        """[(gates)] for every leaf of the gated value that is not None (the client of an earlier run kept)"""
        t = strip(t)
        if t[0] == "ite":
            return kept_under(t[2], gates + ((t[1], True),)) + kept_under(t[3], gates + ((t[1], False),))
        return [] if t == ("const", None) else [gates]
    n_reset = 0
    for _pc, _t, rn_, rst_ in dss_.returns:
        if not any(f"{cp}.{k}" in rst_.env for k in KEYS):
            continue          # (a path that configures no credentials says nothing)
        n_reset += 1
        v = rst_.env.get(f"{cp}._cloud")
        missing = sorted(KEYS.values())
        if v is not None:
            missing = []
            for gates in kept_under(v):
                seen_ = {x for g, _truth in gates for x in subterms(g)}
                miss = [par for attr_, par in KEYS.items() if not (("param", par) in seen_ and ("attr", ("param", cp), attr_) in seen_)]
                missing = sorted(set(missing) | set(miss))
        ctx.ob("C19.a", dsf.qual, not missing, "discover() drops the cloud client of an earlier run (or keeps it only for the same region, account and password)",
               func=dsf.qual, file=dsf.module.rel, node=rn_, construct="cls._cloud reset", detail={"value": show(v)[:160] if v is not None else None},
               fail=f"discover() can keep the cloud client of an earlier run although {', '.join(missing)} may differ: the next device is authenticated "
                    "with a session of the other account / region (no login-id, no login request for this one)")
    ctx.count("cloud_resets", n_reset)
    ctx.require_min("cloud_resets", 1)
    # ---------------------------------------------------------------- C19.d
    ad = ctx.fn(f"{DISC}._authenticate_device")
    ads = summarize(prog, ad)
    dv = ad.params[1]
    fors = [n for n in ast.walk(ad.node) if isinstance(n, ast.For)]
    from ..terms import replace

    def rounds(t):
        """t as it is in each round of the loop: the one `element of <literal sequence>` in it replaced by each element in turn
        (the sequence may hold the orders themselves or values prepared from them, e.g. (order, udpid) pairs)"""
        its = {x for x in subterms(t) if x[0] == "iter" and ((is_const(strip(x[1])) and isinstance(strip(x[1])[1], (list, tuple))) or strip(x[1])[0] in ("tuple", "list"))}
        if len(its) != 1:
            return None
        itx = next(iter(its))
        seq = strip(itx[1])
        elems = [("const", v) for v in seq[1]] if is_const(seq) else list(seq[1])
        if any(e[0] in ("starred", "when") for e in elems):
            return None

        def red(x):
            if not isinstance(x, tuple) or not x:
                return x
            x = tuple(red(y) if isinstance(y, tuple) else y for y in x)
            if x[0] == "item" and x[1][0] in ("tuple", "list") and isinstance(x[2], int) and x[2] < len(x[1][1]):
                return x[1][1][x[2]]
            if x[0] == "item" and is_const(x[1]) and isinstance(x[1][1], (tuple, list)) and isinstance(x[2], int) and x[2] < len(x[1][1]):
                return ("const", x[1][1][x[2]])
            return x
        return [red(replace(t, {itx: e})) for e in elems]

    def udpid_order(ud):
        """the byte order o when ud is udpid(<device>.id.to_bytes(6, o)).hex()"""
        ud = strip(ud)
        if not (meth_is(ud, "hex") and call_is(strip(ud[1][1]), "msmart.lan.Security.udpid")):
            return None
        idb = strip(strip(ud[1][1])[2][-1])
        if meth_is(idb, "to_bytes") and strip(idb[1][1]) == ("attr", ("param", dv), "id") and len(idb[2]) == 2 and idb[2][0] == ("const", 6) and is_const(strip(idb[2][1])):
            return strip(idb[2][1])[1]
        return None
    lp = fors[0] if len(fors) == 1 else None
    auth_calls = [(n, ads.ta.terms_at[n]) for n in ast.walk(lp) if isinstance(n, ast.Call) and isinstance(n.func, ast.Attribute) and n.func.attr == "authenticate"
                  and n in ads.ta.terms_at] if lp is not None else []
    ctx.count("auth_sites", len(auth_calls))
    orders_seen = []
    for n, t in auth_calls:
        args = t[2]
        good = False
        if len(args) == 2:
            a, b = strip(args[0]), strip(args[1])
            if a[0] == "item" and b[0] == "item" and a[1] == b[1] and (a[2], b[2]) == (0, 1):
                gtc = [x for x in subterms(a[1]) if meth_is(x, "get_token")]
                if len(gtc) == 1:
                    per_round = rounds(strip(gtc[0][2][0]))
                    orders = [udpid_order(u) for u in per_round] if per_round else None
                    good = bool(orders) and None not in orders
                    if good:
                        orders_seen.append(orders)
        ctx.ob("C19.d", ad.qual, good, "authenticate(token, key) uses the credentials fetched for udpid(id.to_bytes(6, <this iteration's order>))", func=ad.qual,
               file=ad.module.rel, node=n, detail={"args": [show(x)[:160] for x in args]},
               fail="the device is authenticated with credentials that were not fetched for this iteration's udpid (one order's token used for the other / wrong width)")
    ok_iter = bool(orders_seen) and all(o == ["little", "big"] for o in orders_seen)
    ctx.ob("C19.d", ad.qual, ok_iter, 'the device id is tried in exactly ["little", "big"] byte order', func=ad.qual, file=ad.module.rel, construct="for endian in [...]",
           detail={"orders": orders_seen}, fail="not both byte orders of the device id are tried")
    if lp is not None:
        # continue on AuthenticationError, True on first success, False after the loop
        handlers = [h for n in ast.walk(lp) if isinstance(n, ast.Try) for h in n.handlers if "AuthenticationError" in norm(h.type or ast.Constant(""))]
        cont = bool(handlers) and all(not any(isinstance(x, (ast.Return, ast.Raise, ast.Break)) for st in h.body for x in ast.walk(st)) for h in handlers)
        trues = [(pc, node) for pc, t, node, _ in ads.returns if node is not None and is_const(t, True)]
        falses = [(pc, node) for pc, t, node, _ in ads.returns if node is not None and is_const(t, False)]
        true_in_loop = all(any(node is x for x in ast.walk(lp)) for _pc, node in trues) and bool(trues)
        false_after = all(not any(node is x for x in ast.walk(lp)) for _pc, node in falses) and bool(falses)
        ctl_ok = cont and true_in_loop and false_after
        if cont and not ctl_ok and not trues and not falses:
            # the same control written with a result flag: False before the loop, raised - followed by leaving the loop - only behind the
            # authenticate call that went through, untouched on the way to the next byte order, and returned after the loop
            rnames = {node.value.id if isinstance(node.value, ast.Name) else None for _pc, _t, node, _ in ads.returns if node is not None}
            info_ = ads.loops.get(lp)
            if info_ is not None and len(rnames) == 1 and None not in rnames:
                fl = ("loopvar", next(iter(rnames)), lp.lineno)
                in_handler = {id(x) for h in handlers for x in ast.walk(h)}
                auth_line = max((n.lineno for n, _t in auth_calls), default=None)
                brk_nodes = [x for x in ast.walk(lp) if isinstance(x, ast.Break)]
                brk_ok = bool(brk_nodes) and auth_line is not None and all(id(x) not in in_handler and x.lineno > auth_line for x in brk_nodes)
                in_loop = {id(x) for x in ast.walk(lp)}
                outside_stores = [x for x in ast.walk(ad.node) if isinstance(x, ast.Name) and isinstance(x.ctx, ast.Store) and x.id == fl[1] and id(x) not in in_loop]
                ctl_ok = len(outside_stores) == 1 and strip(info_["entry"].env.get(fl[1], ("top",))) == ("const", False) and brk_ok and bool(info_["breaks"]) \
                    and all(strip(b.env.get(fl[1], fl)) == ("const", True) for b in info_["breaks"]) \
                    and all(strip(e_.env.get(fl[1], fl)) == fl for e_ in info_["ends"] + info_["continues"]) \
                    and all(not any(node is x for x in ast.walk(lp)) for _pc, _t, node, _ in ads.returns if node is not None)
        ctx.ob("C19.d", ad.qual, ctl_ok, "an AuthenticationError moves on to the next byte order; the first success returns True; False only after both failed",
               func=ad.qual, file=ad.module.rel, construct="byte-order loop control", fail="the two-byte-order loop no longer continues on AuthenticationError / returns True on first success / False at the end")
    ud = ctx.fn("msmart.lan.Security.udpid")
    ut = summarize(prog, ud).return_term()
    def xor_operands(t):
        """(a, b) of a byte-wise XOR of two equal-length buffers: strxor(a, b) / bytes(x ^ y for x, y in zip(a, b))"""
        if call_is(t, "Crypto.Util.strxor.strxor") and len(t[2]) == 2:
            return strip(t[2][0]), strip(t[2][1])
        if (call_is(t, "bytes", "bytearray") and len(t[2]) == 1) or t[0] == "comp":
            c = strip(t[2][0]) if t[0] == "call" else t
            if c[0] == "comp" and len(c[3]) == 1 and not c[3][0][2] and call_is(strip(c[3][0][1]), "zip") and len(strip(c[3][0][1])[2]) == 2:
                e = strip(c[2])
                if e[0] == "bin" and e[1] == "^" and {e[2][0], e[3][0]} == {"bound"} and e[2] != e[3]:
                    z = strip(c[3][0][1])[2]
                    return strip(z[0]), strip(z[1])
        return None
    xo = xor_operands(strip(ut))
    u_ok = xo is not None
    if u_ok:
        a, b = xo
        h = lambda x: x[0] == "slice" and meth_is(strip(x[1]), "digest") and call_is(strip(x[1])[1][1], "hashlib.sha256") and strip(strip(x[1])[1][1][2][0]) == ("param", ud.params[-1])  # noqa: E731
        u_ok = h(a) and h(b) and (a[2], a[3]) == (None, ("const", 16)) and (b[2], b[3]) == (("const", 16), None)
    ctx.ob("C19.d", ud.qual, u_ok, "udpid = sha256(id)[:16] xor sha256(id)[16:]", func=ud.qual, file=ud.module.rel, construct="udpid", detail={"term": show(ut)[:200]},
           fail=f"udpid derivation is `{show(ut)[:160]}`")
    # both byte orders are tried: the first attempt's failure reaches `except AuthenticationError: continue` only if every way
    # Device.authenticate can fail on the network (timeout, protocol error, bad reply) is an AuthenticationError - C06.d's obligation
    from . import c06
    ctx.import_rules(c06, "t6", only=("C06.d",))
    ctx.require_min("cloud_cache_stores", 1)
    ctx.require_min("post_sites", 1)
    ctx.require_min("token_returns", 1)
    ctx.require_min("budgets", 3)
    ctx.require_min("api_errors", 1)
    ctx.require_min("auth_sites", 1)
