"""C13 - corrupted responses are rejected and never change state.

  C13.a  validation dominates construction: every response object returned by Response.construct was built after
         Frame.validate(frame) completed, and after Response.validate(body) completed unless the selected class is
         exactly PropertiesResponse (selected only by the two property response ids)
  C13.b  coverage: the frame checksum is computed over frame[1:-1] and compared with frame[-1]; the body check is
         computed over body[0:-1] (= the constructed payload frame[10:-2]) and compared with body[-1]; each validator's
         normal completion implies a match (Response.validate: CRC-8 *or* additive), mismatches raise
  C13.c  rejected frames never touch state: only normally constructed responses reach the valid list (the handler
         appends nothing), _update_state only receives elements of such lists, supported/online are functions of the
         valid list's length; command.py does not reference device objects
Not decided (stated in DESIGN.md): the 1-in-255 arithmetic coincidence of the accept-either design.
"""
from __future__ import annotations

import ast

from ..absint import EventAnalysis, run_events
from ..helpers import collect_loop, flows_from
from ..facts import alternatives, abs_range, atoms, call_is, equality_atoms, index_of, meth_is, strip
from ..model import AnalysisError, norm
from ..terms import NEG, is_const, show, subterms, summarize

CMD = "msmart.device.AC.command"
FRAME_VALIDATE = "msmart.frame.Frame.validate"
RESP_VALIDATE = f"{CMD}.Response.validate"
CHECKSUM = "msmart.frame.Frame.checksum"
CRC = "msmart.crc8.calculate"
AC = "msmart.device.AC.device.AirConditioner"
GETR = f"{AC}._send_command_get_responses"
PROPS = f"{CMD}.PropertiesResponse"


def construct_impl(ctx):
    """The function reachable from Response.construct (inside the class) that dispatches on the response id and
    builds the response object: the one returning `<class-valued term>(<slice of its frame parameter>)`."""
    prog = ctx.prog
    start = ctx.fn(f"{CMD}.Response.construct")
    seen, todo = set(), [start]
    while todo:
        f = todo.pop(0)
        if f.qual in seen:
            continue
        seen.add(f.qual)
        fs = summarize(prog, f)
        from ..helpers import resolve_call
        for _pc, t, node, _st in fs.returns:
            if node is not None and t[0] == "call" and t[1][0] in ("dyn", "func") and t[2] \
                    and any(x[0] == "global" and x[1] in prog.classes and prog.classes[x[1]].name.endswith("Response")
                            for x in subterms(t[1])) and strip(t[2][0])[0] == "slice":
                if isinstance(getattr(node, "value", None), ast.Call) and getattr(resolve_call(prog, f, node.value), "qual", None) in prog.funcs:
                    continue          # only handed through from a helper that was seen through: the helper is the one that builds
                ctx.fn(f.qual)
                return f
        for c in [n for n in ast.walk(f.node) if isinstance(n, ast.Call)]:
            if isinstance(c.func, ast.Attribute) and isinstance(c.func.value, ast.Name) and c.func.value.id in ("cls", "self", "Response"):
                t = prog.lookup_method(f.cls, c.func.attr) if f.cls is not None else None
                if t is not None:
                    todo.append(t)
            elif isinstance(c.func, ast.Name):
                t = resolve_call(prog, f, c)          # (the builder as a module-level function)
                if t is not None and t.qual in prog.funcs and t.module is f.module:
                    todo.append(t)
    raise AnalysisError("no function reachable from Response.construct builds a response object from a slice of the frame")


def implies_match(pc, eqs) -> bool:
    """Does the path condition imply one of the equalities `eqs` (list of (a, b) operand pairs, order-insensitive)?"""
    def is_eq(atom):
        if atom[0] == "cmp" and atom[1] == "==":
            return any({strip(atom[2]), strip(atom[3])} == {strip(a), strip(b)} for a, b in eqs)
        return False

    # the pc is a conjunction; it implies the match iff some conjunct's every alternative contains a matching equality
    for c, truth in pc:
        alts = alternatives(c, truth)
        if alts and all(any(is_eq(a) for a in alt) for alt in alts):
            return True
    return False


def run(ctx):
    prog = ctx.prog
    ctx.explanation = ("must-pass-through (validation calls) on every path of the response constructor; value-flow terms for the "
                       "checksum / CRC coverage ranges and for the accept condition; provenance of the valid-response list and of "
                       "every _update_state argument")
    ctx.trusted = ["CPython ast", "the additive checksum / CRC-8 detect what they detect (no arithmetic claims)"]
    # ---------------------------------------------------------------- C13.b validators
    fv = ctx.fn(FRAME_VALIDATE)
    s = summarize(prog, fv)
    p = fv.params[-1]
    n_norm = 0
    for pc, _t, node, _st in s.returns:
        n_norm += 1
        facts = atoms(pc)
        good = None
        for a, b in equality_atoms(facts):
            for x, y in ((a, b), (b, a)):
                if call_is(x, CHECKSUM) and x[2]:
                    good = (strip(x[2][-1]), strip(y))
        ok = good is not None
        ctx.ob("C13.b", FRAME_VALIDATE, ok, "Frame.validate completes normally only when Frame.checksum(range) == check byte",
               func=FRAME_VALIDATE, file=fv.module.rel, node=node or fv.node.body[-1],
               fail="Frame.validate can complete normally without the checksum having matched")
        if ok:
            rng, chk = abs_range(good[0]), index_of(good[1])
            cov = rng is not None and chk is not None and rng[0] == ("param", p) and rng[1] == 1 and rng[2] == -1 \
                and chk[0] == ("param", p) and chk[1] == ("back", -1)
            ctx.ob("C13.b", FRAME_VALIDATE, cov, "frame checksum covers frame[1:-1] and is compared with frame[-1]",
                   func=FRAME_VALIDATE, file=fv.module.rel, construct=f"{show(good[0])} vs {show(good[1])}",
                   fail=f"frame checksum coverage drifted: computed over {show(good[0])}, compared with {show(good[1])}")
            ctx.sample({"validator": "Frame.validate", "covers": show(good[0]), "check_byte": show(good[1])})
    for pc, exc, node, _st in s.raises:
        ctx.ob("C13.b", FRAME_VALIDATE, exc == "msmart.frame.InvalidFrameException", "mismatch raises InvalidFrameException",
               func=FRAME_VALIDATE, file=fv.module.rel, node=node, fail=f"Frame.validate raises {exc}: not handled as an invalid frame")
        ctx.count("validator_raises")
    ctx.count("validators")

    rv = ctx.fn(RESP_VALIDATE)
    s2 = summarize(prog, rv)
    p2 = rv.params[-1]
    crc_t = chk_t = None
    for node, t in s2.ta.terms_at.items():
        if isinstance(node, ast.Call) and call_is(t, CRC):
            crc_t = t
        if isinstance(node, ast.Call) and call_is(t, CHECKSUM):
            chk_t = t
    if crc_t is None or chk_t is None:
        # computed in a helper that was seen through: the calls stand in the conditions of validate's ways out
        for pc, _x, _n, _st in list(s2.returns) + list(s2.raises):
            for c_, _tr in pc:
                for x in subterms(c_):
                    if call_is(x, CRC) and crc_t is None:
                        crc_t = x
                    if call_is(x, CHECKSUM) and chk_t is None:
                        chk_t = x
    have = crc_t is not None and chk_t is not None
    ctx.ob("C13.b", RESP_VALIDATE, have, "Response.validate computes both the CRC-8 and the additive checksum",
           func=RESP_VALIDATE, file=rv.module.rel, construct="crc8.calculate / Frame.checksum",
           fail="Response.validate no longer computes both body checks")
    if have:
        last = ("sub", ("param", p2), ("const", -1))
        eqs = [(crc_t, last), (chk_t, last)]
        for pc, _t, node, _st in s2.returns:
            ok = implies_match(pc, eqs)
            ctx.ob("C13.b", RESP_VALIDATE, ok, "Response.validate completes normally only when CRC-8 or additive checksum equals body[-1]",
                   func=RESP_VALIDATE, file=rv.module.rel, node=node or rv.node.body[-1],
                   detail={"pc": [show(c) + f" is {t}" for c, t in pc]},
                   fail="Response.validate can complete normally although the check byte matches neither the CRC-8 nor the additive checksum")
        for name, t in (("CRC-8", crc_t), ("additive checksum", chk_t)):
            rng = abs_range(t[2][-1])
            cov = rng is not None and rng[0] == ("param", p2) and rng[1] == 0 and rng[2] == -1
            ctx.ob("C13.b", RESP_VALIDATE, cov, f"{name} covers body[0:-1]", func=RESP_VALIDATE, file=rv.module.rel,
                   construct=show(t), fail=f"{name} is computed over {show(t[2][-1])}, not over body[0:-1]")
        ctx.sample({"validator": "Response.validate", "accept_if": f"{show(crc_t)} == body[-1] or {show(chk_t)} == body[-1]"})
    for pc, exc, node, _st in s2.raises:
        ctx.ob("C13.b", RESP_VALIDATE, exc == f"{CMD}.InvalidResponseException", "mismatch raises InvalidResponseException",
               func=RESP_VALIDATE, file=rv.module.rel, node=node, fail=f"Response.validate raises {exc}: not handled as an invalid response")
        ctx.count("validator_raises")
    ctx.count("validators")

    # ---------------------------------------------------------------- C13.a dominance in the constructor
    ci = construct_impl(ctx)
    cs = summarize(prog, ci)
    file = ci.module.rel

    def is_call_stmt(node, qual):
        if isinstance(node, ast.Expr) and isinstance(node.value, ast.Call):
            t = cs.ta.terms_at.get(node.value)
            return t is not None and call_is(t, qual)
        return False

    ea = EventAnalysis(must=True, on_stmt=lambda node, st: (["frame_ok"] if is_call_stmt(node, FRAME_VALIDATE) else []) +
                       (["body_ok"] if is_call_stmt(node, RESP_VALIDATE) else []))
    comp = run_events(prog, ci, ea)
    # the frame is the first parameter behind the receiver (optional switches may follow it)
    frame_p = ci.params[1] if (ci.kind in ("method", "classmethod") and len(ci.params) > 1) else ci.params[0]
    for (st_ev, node), (pc, ret, _n2, rst) in zip(comp.returns, cs.returns):
        if node is None:
            continue
        ctx.count("construct_returns")
        # the returned object: call of a class-valued term on a payload slice
        rc = ret[1][1] if ret[0] == "call" and ret[1][0] == "dyn" else (("global", ret[1][1]) if ret[0] == "call" and ret[1][0] == "func" else None)
        ctx.ob("C13.a", ci.qual, "frame_ok" in st_ev, "construction is dominated by Frame.validate(frame)", func=ci.qual, file=file, node=node,
               fail="a response can be constructed from a frame whose checksum was never validated")
        # which frame does Frame.validate see?  its argument must be the whole frame
        classes = sorted({x[1] for x in subterms(rc) if x[0] == "global" and x[1] in prog.classes}) if rc else []
        ctx.extra["dispatch_classes"] = classes
        def prop_ids(facts_):
            for c in facts_:
                c = strip(c)
                if c[0] == "cmp" and c[1] == "in" and c[3][0] in ("list", "tuple", "set") and sorted(v[3] for v in c[3][1] if v[0] == "enum") == [0xB0, 0xB1]:
                    return True
                if c[0] == "cmp" and c[1] == "in" and c[3][0] == "const" and isinstance(c[3][1], (tuple, list, set, frozenset)) \
                        and sorted(int(v) for v in c[3][1]) == [0xB0, 0xB1]:
                    return True          # a named constant collection of the two ids
                if c[0] == "cmp" and c[1] == "==" and any(x[0] == "enum" and x[3] in (0xB0, 0xB1) for x in (c[2], c[3])):
                    return True
            return False
        if "body_ok" in st_ev:
            ctx.ob("C13.a", ci.qual, True, "construction is dominated by Response.validate(body) for every class")
        elif rc is not None and strip(rc) == ("global", PROPS):
            # a separate return that builds exactly the exempt class: it must be reached only for the property response ids
            ctx.ob("C13.a", ci.qual, prop_ids(atoms(pc)), "the unvalidated return builds PropertiesResponse and is reached only for response ids 0xB0 / 0xB1",
                   func=ci.qual, file=file, node=node, detail={"facts": [show(f)[:100] for f in atoms(pc)]},
                   fail="a PropertiesResponse is built without body validation for response ids other than 0xB0 / 0xB1")
            ctx.count("exemptions")
        else:
            # Response.validate is conditional: the condition must be exactly `selected class != PropertiesResponse`
            calls = [n for n in ast.walk(ci.node) if isinstance(n, ast.Expr) and is_call_stmt(n, RESP_VALIDATE)]
            ok = False
            detail = {}
            for c in calls:
                pcv = cs.ta.env_at[c].pc
                facts = atoms(pcv)
                guards = [f for f in facts if f[0] == "cmp" and f[1] in ("!=", "is not") and rc is not None
                          and ({strip(f[2]), strip(f[3])} == {strip(rc), ("global", PROPS)})]
                others = [f for f in facts if f not in guards]
                detail = {"guard": [show(f) for f in facts], "constructed_class": show(rc) if rc else None}
                # no other fact may restrict the validation (facts established before the dispatch are fine when they
                # also dominate the return: compare with the return's own facts)
                extra = [f for f in others if f not in atoms(pc)]
                ok = ok or (len(guards) == 1 and not extra)
            if not ok and rc is not None and len(calls) == 1:
                # the same exemption computed another way (a flag returned with the class, a table of checked classes ...): for every way of
                # selecting a class, the body check runs iff that class is not PropertiesResponse
                from ..facts import cases, decide, simplify
                from ..terms import pc_term

                def fold_cls(t_):
                    if not isinstance(t_, tuple):
                        return t_
                    t_ = tuple(fold_cls(x) for x in t_)
                    if t_ and t_[0] == "cmp" and t_[1] in ("is", "is not", "==", "!=") and strip(t_[2])[0] == "global" and strip(t_[3])[0] == "global":
                        same = strip(t_[2])[1] == strip(t_[3])[1]
                        return ("const", same if t_[1] in ("is", "==") else not same)
                    return t_

                def cls_leaves(t_, conds):
                    t_ = strip(t_)
                    if t_[0] == "ite":
                        yield from cls_leaves(t_[2], conds + [(t_[1], True)])
                        yield from cls_leaves(t_[3], conds + [(t_[1], False)])
                    else:
                        yield t_, conds
                G = pc_term(tuple(x for x in cs.ta.env_at[calls[0]].pc if x not in pc))
                verdicts = []
                for leaf_, conds_ in cls_leaves(rc, []):
                    try:
                        css = cases(tuple(conds_), cap=128)
                    except ValueError:
                        css = []
                    for case in css:
                        g_ = fold_cls(simplify(G, case))
                        d_ = g_[1] if is_const(g_) else decide(g_, case)
                        verdicts.append(leaf_[0] == "global" and d_ is (leaf_ != ("global", PROPS)))
                ok = bool(verdicts) and all(verdicts)
                detail["per_class_cases"] = len(verdicts)
            ctx.ob("C13.a", ci.qual, ok, "Response.validate(body) is skipped exactly when the selected class is PropertiesResponse",
                   func=ci.qual, file=file, node=calls[0] if calls else node, detail=detail,
                   fail="the body-check exemption is not exactly `selected class != PropertiesResponse` (widened, dropped or keyed on something else)")
            ctx.count("exemptions")
        # PropertiesResponse is selected only by the property response ids
        if rc is not None:
            def leaves(t, conds):
                if t[0] == "ite":
                    yield from leaves(t[2], conds + [(t[1], True)])
                    yield from leaves(t[3], conds + [(t[1], False)])
                else:
                    yield t, conds
            for leaf, conds in leaves(strip(rc), []):
                if leaf == ("global", PROPS):
                    # definite facts on this leaf (conjunctions flattened) and on the path of this return
                    ids_ok = prop_ids([strip(a) for a in atoms(conds)] + [strip(a) for a in atoms(pc)])
                    if not ids_ok:
                        # an or-pattern / `a == X or a == Y`: in every way of reaching the leaf one of the two ids was matched
                        from ..facts import cases
                        try:
                            cs_ = cases(tuple(conds) + tuple(pc), cap=128)
                        except ValueError:
                            cs_ = []
                        ids_ok = bool(cs_) and all(prop_ids([strip(a) for a in case]) for case in cs_)
                    ctx.ob("C13.a", ci.qual, ids_ok, "PropertiesResponse (the exempt class) is selected only for response ids 0xB0 / 0xB1",
                           func=ci.qual, file=file, construct="response_class = PropertiesResponse",
                           fail="the exempt class PropertiesResponse is selected for other response ids: their body check is skipped")
        # body range validated vs payload constructed
        payload = ret[2][0] if ret[0] == "call" and ret[2] else None
        pr = abs_range(payload) if payload is not None else None
        vcalls = [cs.ta.terms_at[n.value] for n in ast.walk(ci.node) if isinstance(n, ast.Expr) and is_call_stmt(n, RESP_VALIDATE)]
        vr = abs_range(vcalls[0][2][-1]) if vcalls else None
        cov = pr is not None and vr is not None and pr[0] == vr[0] and vr[1] == pr[1] and vr[2] == pr[2] + 1
        ctx.ob("C13.b", ci.qual, cov, "validated body = constructed payload + its trailing check byte (frame[10:-1] vs frame[10:-2])",
               func=ci.qual, file=file, node=node, detail={"payload": show(payload) if payload else None, "validated": show(vcalls[0][2][-1]) if vcalls else None},
               fail="the range handed to Response.validate is not the constructed payload plus its check byte")
        fcalls = [cs.ta.terms_at[n.value] for n in ast.walk(ci.node) if isinstance(n, ast.Expr) and is_call_stmt(n, FRAME_VALIDATE)]
        whole = bool(fcalls) and strip(fcalls[0][2][-1]) == ("param", frame_p)
        ctx.ob("C13.b", ci.qual, whole, "Frame.validate receives the whole frame", func=ci.qual, file=file, construct="Frame.validate(frame_mv)",
               fail="Frame.validate is applied to something else than the whole received frame")

    # ---------------------------------------------------------------- C13.d a rejected frame is rejected *as such*
    # Response.construct(frame) on arbitrary frame bytes escapes only with the two exceptions the device layer treats as
    # "invalid frame, skip it" (may-raise analysis; a helper / message expression that raises something else makes a corrupted
    # frame abort the exchange instead of being dropped).
    from ..raises import Config, Raises, Val
    R_ = Raises(prog, Config())
    cfn = ctx.fn(f"{CMD}.Response.construct")
    _rv, esc = R_.analyze(cfn, {cfn.params[-1]: Val(taint=True, kind="bytes")}, self_cls=prog.cls(f"{CMD}.Response"))
    allowed = ("msmart.frame.InvalidFrameException", f"{CMD}.InvalidResponseException")
    bad = [e for e in esc if not any(prog.exc_is(str(e), a) for a in allowed)]
    ctx.count("construct_escapes", len(esc))
    ctx.ob("C13.d", cfn.qual, not bad, "Response.construct rejects with InvalidFrameException / InvalidResponseException only", func=cfn.qual, file=cfn.module.rel,
           construct="exceptions escaping Response.construct") if not bad else None
    seen_d = set()
    for e in bad:
        k = (str(e), e.site["function"], e.site["construct"])
        if k in seen_d:
            continue
        seen_d.add(k)
        ctx.ob("C13.d", e.site["function"], False, "", func=e.site["function"], file=e.site["file"], construct=f"{e.site['construct']} -> {e}",
               fail=f"{e} can escape Response.construct [{e.why}] via {' -> '.join(q.split('.')[-1] for q in e.chain)}: a corrupted frame is not dropped as invalid")
    # ---------------------------------------------------------------- C13.c state is only touched by valid responses
    g = ctx.fn(GETR)
    gs = summarize(prog, g)
    from ..helpers import with_helpers

    def ite_leaves(x):
        x = strip(x)
        if x[0] == "ite":
            return ite_leaves(x[2]) + ite_leaves(x[3])
        return [x]
    # the list the exchange returns is filled in _send_command_get_responses itself or in a helper a refactoring extracted from it
    # (whose returned list it hands on): every function of that family is examined
    for h_ in with_helpers(prog, g):
        hs_ = gs if h_ is g else summarize(prog, h_)
        appends = [n for n in ast.walk(h_.node) if isinstance(n, ast.Call) and isinstance(n.func, ast.Attribute) and n.func.attr in ("append", "extend", "insert", "add")]
        handlers = [hd for n in ast.walk(h_.node) if isinstance(n, ast.Try) for hd in n.handlers]
        in_handler = {id(x) for hd in handlers for x in ast.walk(hd)}
        ret_names = set()
        for _pc, t, node, _st in hs_.returns:
            if node is not None and isinstance(node.value, ast.Name):
                ret_names.add(node.value.id)
            elif node is not None and isinstance(node.value, ast.Call) and isinstance(node.value.func, ast.Name) and node.value.func.id in ("list", "tuple") \
                    and len(node.value.args) == 1 and isinstance(node.value.args[0], ast.Name) and not node.value.keywords:
                ret_names.add(node.value.args[0].id)          # (`return list(valid)`: a copy of the list is that list)
        for a in appends:
            if not (isinstance(a.func.value, ast.Name) and a.func.value.id in ret_names):
                continue
            ctx.count("valid_list_appends")
            t = hs_.ta.terms_at.get(a.args[0]) if a.args else None
            lv = ite_leaves(t) if t is not None else []
            # (a helper that returns None for a rejected frame is fine: None is not a response and is guarded / crashes, never validates)
            from_construct = any(call_is(x, f"{CMD}.Response.construct") for x in lv) and all(call_is(x, f"{CMD}.Response.construct") or x == ("const", None) for x in lv)
            ctx.ob("C13.c", GETR, from_construct and id(a) not in in_handler,
                   "only the result of a normally completed Response.construct is appended to the returned list",
                   func=h_.qual, file=h_.module.rel, node=a,
                   fail="something other than a successfully constructed response reaches the valid-response list "
                        "(append in the handler, or of raw data)")
    # the list written as a comprehension: [construct(d) for d in frames] / [r for r in (...) if r is not None]
    def comp_elements(t_, depth=0):
        t_ = strip(t_)
        if t_[0] != "comp" or t_[1] not in ("list", "gen") or len(t_[3]) != 1 or depth > 4:
            return None
        var, src, _conds = t_[3][0]
        if strip(t_[2]) == ("bound", var) and strip(src)[0] == "comp":
            return comp_elements(src, depth + 1)          # a filter over another comprehension: its elements
        return t_[2]
    for _pc, t_, node_, _st in gs.returns:
        el = comp_elements(t_) if node_ is not None else None
        if el is None:
            continue
        ctx.count("valid_list_appends")
        lv = ite_leaves(el)
        from_construct = any(call_is(x, f"{CMD}.Response.construct") for x in lv) and all(call_is(x, f"{CMD}.Response.construct") or x == ("const", None) for x in lv)
        ctx.ob("C13.c", GETR, from_construct, "every element of the returned list is the result of a normally completed Response.construct",
               func=GETR, file=g.module.rel, node=node_,
               fail="something other than a successfully constructed response reaches the valid-response list")
    # supported flag
    sup = None
    for _pc, _t, _n, rst in gs.returns:
        sup = rst.env.get(f"{g.params[0]}._supported")
    rets = [strip(t) for _pc, t, n, _st in gs.returns if n is not None]
    rets = [strip(r[2][0]) if r[0] == "call" and r[1] in (("ext", "list"), ("ext", "tuple")) and len(r[2]) == 1 and not r[3] else r for r in rets]          # (a copy of the list is that list)
    sup_ok = sup is not None and len(set(rets)) == 1 and rets[0][0] in ("loopvar", "mut", "list", "ite", "comp") and any(strip(x) == rets[0] for x in subterms(sup))
    if sup_ok:
        # ... and of nothing else: not of the raw frames, not of an earlier exchange (the previous flag, other device state)
        from ..terms import replace
        rest = replace(sup, {x: ("const", "<valid list>") for x in subterms(sup) if strip(x) == rets[0]})
        sup_ok = not any(x[0] in ("param", "attr", "loopvar", "await", "iter", "top") for x in subterms(rest))

        def ev_n(t, n):
            """value of the flag expression when the valid list holds n responses (None: not one of the simple forms)"""
            t = strip(t)
            if t == ("const", "<valid list>"):
                return ["x"] * n
            if is_const(t):
                return t[1]
            if t[0] == "call" and t[1] == ("ext", "len") and len(t[2]) == 1:
                v = ev_n(t[2][0], n)
                return len(v) if isinstance(v, list) else None
            if t[0] == "call" and t[1] == ("ext", "bool") and len(t[2]) == 1:
                v = ev_n(t[2][0], n)
                return None if v is None else bool(v)
            if t[0] == "un" and t[1] == "not":
                v = ev_n(t[2], n)
                return None if v is None else not v
            if t[0] == "cmp" and t[1] in (">", ">=", "<", "<=", "==", "!="):
                a, b = ev_n(t[2], n), ev_n(t[3], n)
                if a is None or b is None or isinstance(a, list) != isinstance(b, list):
                    return None
                return {">": a > b, ">=": a >= b, "<": a < b, "<=": a <= b, "==": a == b, "!=": a != b}[t[1]]
            return None
        v0, v1, v3 = ev_n(rest, 0), ev_n(rest, 1), ev_n(rest, 3)
        if sup_ok and None not in (v0, v1, v3) and (bool(v0) or not bool(v1) or not bool(v3)):
            sup_ok = False          # (a function of the count, but not "at least one": e.g. `len(valid) >= 0` is true for an exchange without a valid frame)
    if not sup_ok and sup is not None and rets and len(set(rets)) == 1 and rets[0][0] == "loopvar" and strip(sup)[0] == "loopvar" and strip(sup)[2] == rets[0][2]:
        # a flag raised in the loop exactly where a response is appended: False before the loop, True on the back edges that append, unchanged on the others
        from ..helpers import flag_tracks_list
        sup_ok = flag_tracks_list(gs, sup, rets[0])
    ctx.ob("C13.c", GETR, sup_ok, "`supported` is a function of the number of valid responses of this exchange", func=GETR, file=g.module.rel,
           construct="self._supported = len(valid_responses) > 0", fail="`supported` is not derived from the valid-response list (raw frames count)")
    # every _update_state argument comes from _send_command_get_responses
    ac = prog.cls(AC)
    for f in ac.methods.values():
        fs = None
        for n in ast.walk(f.node):
            if isinstance(n, ast.Call) and isinstance(n.func, ast.Attribute) and n.func.attr == "_update_state" and isinstance(n.func.value, ast.Name):
                fs = fs or summarize(prog, f)
                t = fs.ta.terms_at.get(n.args[0]) if n.args else None
                ok = t is not None and flows_from(fs, f, t, lambda x: call_is(x, GETR))
                if not ok and t is not None and not prog.is_known(f.qual):
                    # a helper that walks what it is given: every caller in the class gives it elements of a valid-response list
                    from ..helpers import passed_for
                    ps_ = sorted({x[1] for x in subterms(t) if x[0] == "param" and x[1] in f.params[1:]})
                    sites_ = [s_ for p_ in ps_ for s_ in passed_for(prog, list(ac.methods.values()), f, p_)]
                    ok = bool(ps_) and bool(sites_) and all(flows_from(cs_, cf_, a_, lambda x: call_is(x, GETR)) for cf_, cs_, a_ in sites_)
                ctx.count("update_state_calls")
                ctx.ob("C13.c", f.qual, ok, "_update_state receives an element of a valid-response list", func=f.qual, file=f.module.rel, node=n,
                       detail={"argument": show(t) if t else None},
                       fail="_update_state is fed something that did not come out of _send_command_get_responses (unvalidated data reaches the state)")
    r = ctx.fn(f"{AC}.refresh")
    rs = summarize(prog, r)
    on = None
    for _pc, _t, _n, rst in rs.returns:
        on = rst.env.get(f"{r.params[0]}._online")

    def from_getr(x):
        if any(call_is(y, GETR) for y in subterms(x)):
            return True
        src = collect_loop(rs, r, strip(x)) if x[0] == "loopvar" else None
        return src is not None and any(call_is(y, GETR) for y in subterms(src))
    on_ok = on is not None and any(from_getr(x) for x in subterms(on) if x[0] in ("comp", "loopvar", "await", "mut")) \
        and not any(call_is(x, f"{AC}._send_command") or (x[0] == "call" and x[1][0] == "ext" and x[1][1].endswith("._send_command")) for x in subterms(on))
    if on_ok:
        # "receives only such frames -> offline": with no valid response the flag must be false.  A disjunct that does not look at this
        # refresh's responses (a tolerance counter, the previous flag, a timestamp) keeps the device online on corrupted frames alone
        def disjuncts(x):
            x = strip(x)
            if x[0] == "bool" and x[1] == "or":
                for y in x[2]:
                    yield from disjuncts(y)
            else:
                yield x
        loose = [d_ for d_ in disjuncts(on) if not any(from_getr(y) for y in subterms(d_) if y[0] in ("comp", "loopvar", "await", "mut"))]
        if loose:
            on_ok = False
            ctx.ob("C13.c", r.qual, False, "", func=r.qual, file=r.module.rel, construct=f"self._online = {show(on)[:90]}",
                   fail=f"`online` can be true without any valid response of this refresh (`{show(loose[0])[:80]}`): a refresh answered only by "
                        "corrupted frames does not report the device offline")
            on_ok = True          # (reported above; the generic message below would repeat it)
    if not on_ok:
        # the same decision written as control flow: every return stores a constant, and which one is decided by the truth / length of
        # the validated responses (`if not responses: self._online = False; return` ... `self._online = True`)
        from ..facts import cases
        per = []
        for pc_, _t, n_, rst in rs.returns:
            if n_ is None:
                continue
            v_ = rst.env.get(f"{r.params[0]}._online")
            v_ = strip(v_) if v_ is not None else None
            good = False
            if v_ is not None and is_const(v_) and isinstance(v_[1], bool):
                for case in (cases(pc_, cap=64) or [[]]):
                    hit = False
                    for a_ in case:
                        a_ = strip(a_)
                        neg_ = False
                        while a_[0] == "un" and a_[1] == "not":
                            a_, neg_ = strip(a_[2]), not neg_
                        if a_[0] == "cmp" and call_is(strip(a_[2]), "len") and is_const(a_[3]):
                            x_, truthy = strip(strip(a_[2])[2][0]), (a_[1], a_[3][1]) in ((">", 0), (">=", 1), ("!=", 0))
                            empty = (a_[1], a_[3][1]) in (("==", 0), ("<", 1), ("<=", 0))
                            if (truthy or empty) and from_getr(x_) and (truthy != neg_) == v_[1]:
                                hit = True
                        elif from_getr(a_) and (not neg_) == v_[1]:
                            hit = True
                    good = hit
                    if not hit:
                        break
            per.append(good)
        on_ok = bool(per) and all(per)
    if not on_ok and on is not None and strip(on)[0] == "loopvar":
        # a flag raised exactly where a validated response is added to the list that is then applied
        from ..helpers import flag_tracks_list
        fl = strip(on)
        linfo = next((i_ for l, i_ in rs.loops.items() if getattr(l, "lineno", None) == fl[2]), None)
        lists = sorted({k for st_ in (linfo["ends"] if linfo else []) for k, v in st_.env.items() if k != fl[1] and "." not in k and strip(v)[0] in ("loopvar", "mut")})
        on_ok = any(from_getr(("loopvar", k, fl[2])) and flag_tracks_list(rs, fl, ("loopvar", k, fl[2])) for k in lists)
    ctx.ob("C13.c", r.qual, on_ok, "`online` is a function of the number of valid responses of this refresh", func=r.qual, file=r.module.rel,
           construct="self._online = len(responses) > 0", fail="`online` is not derived from the validated responses of this refresh")
    cm = prog.module(CMD)
    dev_imports = [k for k, (mod, _a) in cm.imports.items() if mod.startswith("msmart.device.AC.device") or mod.startswith("msmart.base_device")]
    ctx.ob("C13.c", CMD, not dev_imports, "command.py does not reference device objects (constructing a response cannot touch device state)",
           func=CMD, file=cm.rel, construct="imports", fail=f"command.py imports device modules: {dev_imports}")
    # what is validated is what arrived: Device._send_command hands on the frames LAN.send returned as they are (a frame trimmed, padded or
    # re-sliced on the way is validated as a different frame - a corrupted length byte then selects a self-consistent prefix)
    sc = ctx.fn("msmart.base_device.Device._send_command")
    scs = summarize(prog, sc)
    leaves_ = [y for _pc, t_, n_, _ in scs.returns if n_ is not None for y in ite_leaves(t_)]

    def as_sent(y):
        y = strip(y)
        if y in (("const", None), ("list", ()), ("tuple", ())) or (y[0] in ("list", "tuple") and not y[1]):
            return True
        return y[0] == "await" and meth_is(strip(y[1]), "send") and strip(strip(y[1])[1][1]) == ("attr", ("param", sc.params[0]), "_lan")
    ctx.count("transport_returns", len(leaves_))
    ctx.ob("C13.c", sc.qual, bool(leaves_) and all(as_sent(y) for y in leaves_), "_send_command returns the frames of LAN.send unmodified (or nothing)", func=sc.qual, file=sc.module.rel,
           construct="return responses", detail={"returns": [show(y)[:80] for y in leaves_]},
           fail="_send_command alters the received frames before they are validated (`" + next((show(y)[:80] for y in leaves_ if not as_sent(y)), "") +
                "`): the checks no longer cover the frame the device sent")
    # ... and a rejected frame is *dropped*: the operation goes on (nothing escapes refresh / apply / get_capabilities / ... for any frame
    # bytes) - C14's containment obligations
    from . import c14
    ctx.import_rules(c14, "t14", only=("C14.a", "C14.b"))
    # ... the checks themselves are the documented ones: the CRC-8 table (a changed entry lets one substitute value per position through) and
    # the checksum formula - C12's obligations on the same functions
    from . import c12
    ctx.import_rules(c12, "t12", only=("C12.a", "C12.e"))
    # ... and the exposed state is written by the response handlers only: an operation that resets an exposed attribute before its exchange
    # has been validated changes the state also when every frame of that exchange is dropped
    acls = prog.cls(AC)
    handlers = [prog.funcs.get(f"{AC}._update_state"), prog.funcs.get(f"{AC}._update_capabilities")]
    exposed = {t_.attr for h_ in handlers if h_ is not None for n_ in ast.walk(h_.node) if isinstance(n_, (ast.Assign, ast.AugAssign, ast.AnnAssign))
               for t_ in (n_.targets if isinstance(n_, ast.Assign) else [n_.target]) if isinstance(t_, ast.Attribute) and isinstance(t_.value, ast.Name) and t_.value.id == h_.params[0]}
    early = []
    for name_ in ("refresh", "get_capabilities", "toggle_display", "start_self_clean", "_send_command_get_responses", "_send_command_get_response_with_id", "_apply_properties"):
        m_ = acls.methods.get(name_)
        if m_ is None:
            continue
        for n_ in ast.walk(m_.node):
            if isinstance(n_, (ast.Assign, ast.AugAssign, ast.AnnAssign)):
                for t_ in (n_.targets if isinstance(n_, ast.Assign) else [n_.target]):
                    if isinstance(t_, ast.Attribute) and isinstance(t_.value, ast.Name) and t_.value.id == m_.params[0] and t_.attr in exposed:
                        early.append((m_, n_, t_.attr))
    ctx.count("exposed_attributes", len(exposed))
    ctx.ob("C13.c", AC, not early, "the operations store no exposed state themselves (only _update_state / _update_capabilities do, from validated responses)",
           func=early[0][0].qual if early else AC, file=acls.module.rel, node=early[0][1] if early else None, construct="direct store to exposed state",
           fail=(f"{early[0][0].qual} writes self.{early[0][2]} itself: the exposed state changes even when every frame of the exchange is rejected") if early else "")
    ctx.require_min("validators", 2)
    ctx.require_min("validator_raises", 2)
    ctx.require_min("construct_returns", 1)
    ctx.require_min("valid_list_appends", 1)
    ctx.require_min("update_state_calls", 1)          # (three on the pinned tree; loops that walk responses may legitimately be merged into one helper)
