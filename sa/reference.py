"""E7 - vendor reference: lexical cross-checks against /repo/reference/*.lua and frozen layout tables.

The Lua files are *data*: they are read as text (no Lua toolchain in the sandbox).  Constants the frozen tables
rely on are re-read from the Lua on every run; each frozen row cites the Lua line it was transcribed from
(T_0000_AC_00000Q14_2024013001.lua).
"""
from __future__ import annotations

import os
import re
from typing import Dict, List, Optional

from .model import REPO, AnalysisError

LUA_MAIN = "reference/T_0000_AC_00000Q14_2024013001.lua"
LUA_ALT = "reference/T_0000_AC_00000Q1B_2023072401.lua"


def lua_text(root=None, name=LUA_MAIN) -> str:
    p = os.path.join(root or REPO, name)
    if not os.path.exists(p):
        raise AnalysisError(f"vendor reference {name} not found")
    with open(p, encoding="utf-8", errors="replace") as fh:
        return fh.read()


def lua_crc_table(text: str) -> List[int]:
    m = re.search(r"crc8_854_table\s*=\s*\{([^}]*)\}", text)
    if not m:
        raise AnalysisError("crc8_854_table not found in the vendor Lua")
    vals = [int(x, 0) for x in re.findall(r"0x[0-9a-fA-F]+|\d+", m.group(1))]
    return vals


def lua_keyb(text: str) -> Dict[str, int]:
    out = {}
    for m in re.finditer(r'keyB\["([A-Z0-9_]+)"\]\s*=\s*(0x[0-9a-fA-F]+|\d+)', text):
        out[m.group(1)] = int(m.group(2), 0)
    return out


def dallas_table() -> List[int]:
    """CRC-8/MAXIM (Dallas 1-Wire): polynomial x^8+x^5+x^4+1, reflected 0x8C, init 0."""
    t = []
    for i in range(256):
        c = i
        for _ in range(8):
            c = (c >> 1) ^ 0x8C if c & 1 else c >> 1
        t.append(c)
    return t


def lua_property_writes(text: str) -> Dict[int, List[int]]:
    """{low id byte: [declared value lengths]} of the property-protocol write blocks
    (`bodyBytes[cursor + 0] = id; [cursor + 1] = 0x00; [cursor + 2] = len`, Lua l.3455-3905)."""
    out: Dict[int, List[int]] = {}
    for m in re.finditer(r"bodyBytes\[cursor \+ 0\]\s*=\s*(0x[0-9a-fA-F]+)\s*\n(?:[^\n]*\n){0,4}?\s*bodyBytes\[cursor \+ 1\]\s*=\s*(0x[0-9a-fA-F]+)\s*\n\s*bodyBytes\[cursor \+ 2\]\s*=\s*(0x[0-9a-fA-F]+)", text):
        if int(m.group(2), 16) == 0:
            out.setdefault(int(m.group(1), 16), []).append(int(m.group(3), 16))
    return out
