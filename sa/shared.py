"""State shared between instances by accident: a mutable object bound at class level and mutated in place through an instance.

    class R:                       every R shares one dict: what one instance's method stores (or clears) is seen by all the others
        _items = {}
        def parse(self, b): self._items.clear(); self._items[k] = v

Reported per (class, attribute) with the mutating site.  Not reported: class-level constants that are never mutated (tables), attributes every
constructor rebinds (`self.x = {}` in __init__ on all paths), and mutation through the class on purpose (`cls.x` / `ClassName.x` stores in
classmethods - registries, caches: those are visible in the code as shared)."""
import ast
from typing import List, Tuple

from .model import ClassInfo, Program

MUTABLE_CALLS = {"dict", "list", "set", "bytearray", "defaultdict", "OrderedDict", "deque", "Counter"}
MUTATORS = {"append", "extend", "insert", "remove", "pop", "popitem", "clear", "update", "setdefault", "add", "discard", "sort", "reverse", "appendleft", "popleft",
            "__setitem__", "__delitem__", "__iadd__"}


def _mutable(e: ast.expr) -> bool:
    if isinstance(e, (ast.Dict, ast.List, ast.Set, ast.ListComp, ast.DictComp, ast.SetComp)):
        return True
    if isinstance(e, ast.Call):
        f = e.func
        name = f.id if isinstance(f, ast.Name) else (f.attr if isinstance(f, ast.Attribute) else "")
        return name in MUTABLE_CALLS
    return False


def _rebinds_in_init(prog: Program, c: ClassInfo, attr: str) -> bool:
    """some __init__ in the MRO (the one that runs) assigns self.<attr> at its top level"""
    for k in prog.mro(c):
        ini = k.methods.get("__init__")
        if ini is None:
            continue
        recv = ini.params[0] if ini.params else "self"
        for st in ini.node.body:
            for n in ast.walk(st) if isinstance(st, (ast.Assign, ast.AnnAssign)) else []:
                if isinstance(n, ast.Attribute) and isinstance(n.ctx, ast.Store) and n.attr == attr and isinstance(n.value, ast.Name) and n.value.id == recv:
                    return True
        # a subclass __init__ that does not call super().__init__() hides the others; either way the first one found decides
        if not any(isinstance(n, ast.Call) and isinstance(n.func, ast.Attribute) and n.func.attr == "__init__" for n in ast.walk(ini.node)):
            return False
    return False


def shared_mutable_state(prog: Program, classes: List[ClassInfo]) -> List[Tuple[ClassInfo, str, ast.AST, str]]:
    """[(class, attribute, mutating node, method qual)]"""
    out = []
    seen = set()
    for c in classes:
        for k in prog.mro(c):
            for attr, val in k.attrs.items():
                if not _mutable(val) or (k.qual, attr) in seen:
                    continue
                seen.add((k.qual, attr))
                users = [k] + prog.subclasses(k)
                if all(_rebinds_in_init(prog, u, attr) for u in users):
                    continue
                for u in users:
                    for m in u.methods.values():
                        if m.kind in ("classmethod", "staticmethod") or not m.params:
                            continue
                        recv = m.params[0]
                        for n in ast.walk(m.node):
                            hit = None
                            if isinstance(n, ast.Call) and isinstance(n.func, ast.Attribute) and n.func.attr in MUTATORS:
                                b = n.func.value
                                if isinstance(b, ast.Attribute) and b.attr == attr and isinstance(b.value, ast.Name) and b.value.id == recv:
                                    hit = n
                            elif isinstance(n, (ast.Assign, ast.AugAssign, ast.Delete)):
                                tg = n.targets if isinstance(n, (ast.Assign, ast.Delete)) else [n.target]
                                for t in tg:
                                    if isinstance(t, ast.Subscript) and isinstance(t.value, ast.Attribute) and t.value.attr == attr \
                                            and isinstance(t.value.value, ast.Name) and t.value.value.id == recv:
                                        hit = n
                                    if isinstance(n, ast.AugAssign) and isinstance(t, ast.Attribute) and t.attr == attr and isinstance(t.value, ast.Name) and t.value.id == recv \
                                            and isinstance(val, (ast.List, ast.Call)) and not isinstance(val, ast.Dict):
                                        hit = n          # self.buf += x on a class-level list / bytearray extends the shared object
                            if hit is not None and not any(o[0] is k and o[1] == attr and o[2] is hit for o in out):
                                out.append((k, attr, hit, m.qual))
    return out


def check(ctx, rule: str, classes: List[ClassInfo], what: str):
    """one obligation per examined class family; a finding per shared attribute"""
    from .model import norm
    prog = ctx.prog
    hits = shared_mutable_state(prog, classes)
    ctx.count("per_instance_state_classes", len(classes))
    by = {}
    for k, attr, node, q in hits:
        by.setdefault((k.qual, attr), (k, node, q))
    ctx.ob(rule, "class-level state", not by, f"no mutable class-level object is mutated through an instance in {what}", func="class-level state",
           file=classes[0].module.rel if classes else "", construct="class-level mutable state", fail="") if not by else None
    for (kq, attr), (k, node, q) in sorted(by.items()):
        ctx.ob(rule, q, False, "", func=q, file=k.module.rel, node=node, construct=norm(node)[:80],
               fail=f"{k.name}.{attr} is one object bound at class level and mutated in place through an instance: every {k.name} shares it, so what one "
                    f"object stores or clears is seen by all the others")


def escaping_instance_state(prog: Program, classes: List[ClassInfo]) -> List[Tuple[ClassInfo, str, ast.AST, str]]:
    """[(class, attribute, node, method qual)]: a container an instance keeps mutating (self.<attr>[k] = v, self.<attr>.update(..)) is put - the
    object itself, not a copy - into a class-level or module-level container (a cache, a registry): what a later call does to the instance's
    own result is then seen by every other user of that container.  Copies (dict(x), x.copy(), list(x), deepcopy) are not reported."""
    from .facts import strip
    from .terms import summarize
    out = []
    for c in classes:
        fam = prog.mro(c)
        names = {k.name for k in fam} | {k.name for k in prog.subclasses(c)}
        methods = [m for k in fam for m in k.methods.values() if m.params and m.kind not in ("staticmethod",)]
        mutated = set()
        for m in methods:
            recv = m.params[0]
            for n in ast.walk(m.node):
                b = None
                if isinstance(n, ast.Call) and isinstance(n.func, ast.Attribute) and n.func.attr in MUTATORS:
                    b = n.func.value
                elif isinstance(n, ast.Subscript) and isinstance(n.ctx, (ast.Store, ast.Del)):
                    b = n.value
                if isinstance(b, ast.Attribute) and isinstance(b.value, ast.Name) and b.value.id == recv:
                    mutated.add(b.attr)
        if not mutated:
            continue
        for m in methods:
            recv = m.params[0]
            s = None

            def shared_base(b):
                if isinstance(b, ast.Attribute) and isinstance(b.value, ast.Name) and (b.value.id in names or (b.value.id == recv and m.kind == "classmethod")):
                    return True
                if isinstance(b, ast.Attribute) and isinstance(b.value, ast.Call) and isinstance(b.value.func, ast.Name) and b.value.func.id == "type":
                    return True
                if isinstance(b, ast.Name) and b.id in prog.module_assigns(m.module) and _mutable(prog.module_assigns(m.module)[b.id]):
                    return not any(isinstance(x, ast.Name) and isinstance(x.ctx, ast.Store) and x.id == b.id for x in ast.walk(m.node))
                return False

            def bare(v):
                nonlocal s
                if isinstance(v, (ast.Tuple, ast.List, ast.Set)):
                    return next((r for e in v.elts for r in [bare(e)] if r), None)
                if isinstance(v, ast.Dict):
                    return next((r for e in v.values for r in [bare(e)] if r), None)
                if isinstance(v, ast.IfExp):
                    return bare(v.body) or bare(v.orelse)
                if isinstance(v, ast.Attribute) and isinstance(v.value, ast.Name) and v.value.id == recv and v.attr in mutated:
                    return v.attr
                if isinstance(v, ast.Name):
                    s = s or summarize(prog, m)
                    t = s.ta.terms_at.get(v)
                    t = strip(t) if t is not None else None
                    if t is not None and t[0] == "attr" and t[1] == ("param", recv) and t[2] in mutated:
                        return t[2]
                return None
            for n in ast.walk(m.node):
                vals, base = [], None
                if isinstance(n, ast.Assign) and any(isinstance(t, ast.Subscript) for t in n.targets):
                    base = next(t.value for t in n.targets if isinstance(t, ast.Subscript))
                    vals = [n.value]
                elif isinstance(n, ast.Call) and isinstance(n.func, ast.Attribute) and n.func.attr in ("append", "add", "insert", "extend", "update", "setdefault", "__setitem__", "appendleft"):
                    base = n.func.value
                    vals = list(n.args) + [k.value for k in n.keywords]
                if base is None or not shared_base(base):
                    continue
                for v in vals:
                    a = bare(v)
                    if a:
                        out.append((c, a, n, m.qual))
    return out


LIB_COROUTINES = {("asyncio", "wait_for"), ("asyncio", "gather"), ("asyncio", "sleep"), ("asyncio", "open_connection"), ("asyncio", "wait")}
_COMMON_METHOD_NAMES = {"read", "write", "close", "get", "put", "send", "connect", "run", "wait", "sleep", "start", "stop", "join", "open", "acquire", "release"}


def _async_only_names(prog: Program) -> set:
    """method names every definition of which in the package is `async def` (and that no sync library object commonly offers)"""
    cache = prog.__dict__.setdefault("_async_only_names", None)
    if cache is None:
        kinds = {}
        for f in prog.funcs.values():
            if f.module.is_test or f.cls is None:
                continue
            is_coro = f.is_async and not any(isinstance(y, (ast.Yield, ast.YieldFrom)) for y in ast.walk(f.node))
            kinds.setdefault(f.name, set()).add(is_coro)
        cache = {n for n, k in kinds.items() if k == {True} and n not in _COMMON_METHOD_NAMES and not n.startswith("__")}
        prog.__dict__["_async_only_names"] = cache
    return cache


def dropped_coroutines(prog: Program, funcs) -> List[Tuple[str, ast.AST, str]]:
    """[(function, node, callee)]: a coroutine function is called and the coroutine object is not awaited, scheduled, returned or handed on - it
    is thrown away (expression statement), unpacked, iterated, or bound once to a name that is then used as if it were the result
    (attribute / subscript / iteration / arithmetic / comparison / truth test / a builtin taking a value).  The call never runs:
    `self.authenticate()` for `await self.authenticate()` is the typical slip - everything the call was meant to do silently does not happen.

    Callee resolution: self / cls / super methods, module functions, `self.<attr>.<m>()` through the binding table, `<param>.<m>()` through
    the parameter's annotation, `<local>.<m>()` for a local built from a package class, asyncio's own coroutine functions, and - last - a
    method name every definition of which in the package is `async def`."""
    from .helpers import resolve_call as _resolve_call, with_helpers
    out, seen = [], set()
    async_only = _async_only_names(prog)

    def is_coro_fn(t):
        return t is not None and getattr(t, "is_async", False) and not any(isinstance(y, (ast.Yield, ast.YieldFrom)) for y in ast.walk(t.node))

    def callee(f, call, local_types):
        """qualified name of the coroutine function this call creates a coroutine of, or None"""
        t = _resolve_call(prog, f, call)
        if t is not None:
            return t.qual if is_coro_fn(t) else None
        fn_ = call.func
        if isinstance(fn_, ast.Attribute) and isinstance(fn_.value, ast.Name) and (fn_.value.id, fn_.attr) in LIB_COROUTINES:
            return f"{fn_.value.id}.{fn_.attr}"
        if not isinstance(fn_, ast.Attribute):
            return None
        b_ = fn_.value
        owners = None
        if isinstance(b_, ast.Attribute) and isinstance(b_.value, ast.Name) and f.cls is not None and f.params and b_.value.id == f.params[0] \
                and f.kind in ("method", "property", "setter"):
            from .bindings import attr_types
            try:
                owners = attr_types(prog, f.cls, b_.attr)
            except Exception:
                owners = None
        elif isinstance(b_, ast.Name) and b_.id in local_types:
            owners = local_types[b_.id]
        if owners:
            ms = [prog.lookup_method(prog.classes[q], fn_.attr) for q in owners if q in prog.classes]
            if ms and all(m is not None for m in ms):
                return ms[0].qual if all(is_coro_fn(m) for m in ms) else None
        if fn_.attr in async_only and not (isinstance(b_, ast.Name) and b_.id in ("asyncio", "loop")):
            return f"<every definition of {fn_.attr} in the package is a coroutine function>"
        return None

    for f0 in funcs:
        for f in with_helpers(prog, f0):
            if f.qual in seen:
                continue
            seen.add(f.qual)
            par = {c: p_ for p_ in ast.walk(f.node) for c in ast.iter_child_nodes(p_)}
            # what a plain name may hold: a parameter by its annotation, a local by the package class it is constructed from
            local_types = {}
            a_ = f.node.args
            for p_ in a_.posonlyargs + a_.args + a_.kwonlyargs:
                if p_.annotation is not None:
                    r_ = prog.resolve_expr(f.module, p_.annotation, f.cls)
                    if isinstance(r_, ClassInfo):
                        local_types[p_.arg] = [r_.qual] + [k.qual for k in prog.subclasses(r_) if k is not r_]
            for n in ast.walk(f.node):
                if isinstance(n, ast.Assign) and len(n.targets) == 1 and isinstance(n.targets[0], ast.Name) and isinstance(n.value, ast.Call):
                    r_ = prog.resolve_expr(f.module, n.value.func, f.cls)
                    if isinstance(r_, ClassInfo):
                        local_types.setdefault(n.targets[0].id, []).append(r_.qual)
            binds = {}
            for n in ast.walk(f.node):
                for tg in (n.targets if isinstance(n, ast.Assign) else [n.target] if isinstance(n, (ast.AnnAssign, ast.AugAssign, ast.For, ast.AsyncFor, ast.NamedExpr)) else
                           [i.optional_vars for i in n.items if i.optional_vars is not None] if isinstance(n, (ast.With, ast.AsyncWith)) else
                           [ast.Name(id=n.name)] if isinstance(n, ast.ExceptHandler) and n.name else []):
                    for nm in ast.walk(tg):
                        if isinstance(nm, ast.Name):
                            binds.setdefault(nm.id, []).append(n)
            params = {a.arg for a in ast.walk(f.node.args) if isinstance(a, ast.arg)}
            for n in ast.walk(f.node):
                if not isinstance(n, ast.Call) or isinstance(par.get(n), ast.Await):
                    continue
                p_ = par.get(n)
                how = None
                if isinstance(p_, ast.Expr):
                    how = "thrown away"
                elif isinstance(p_, ast.Assign) and p_.value is n and len(p_.targets) == 1 and isinstance(p_.targets[0], (ast.Tuple, ast.List)):
                    how = "unpacked"
                elif isinstance(p_, (ast.For, ast.comprehension)) and p_.iter is n:
                    how = "iterated"
                elif isinstance(p_, ast.Assign) and p_.value is n and len(p_.targets) == 1 and isinstance(p_.targets[0], ast.Name):
                    name = p_.targets[0].id
                    if len(binds.get(name, [])) == 1 and name not in params:
                        uses = [u for u in ast.walk(f.node) if isinstance(u, ast.Name) and u.id == name and isinstance(u.ctx, ast.Load)]

                        def value_use(u):
                            q_ = par.get(u)
                            return (isinstance(q_, ast.Attribute) and q_.attr not in ("close", "send", "throw", "cr_frame", "cr_running", "cr_await", "cr_code")) \
                                or (isinstance(q_, ast.Subscript) and q_.value is u) or (isinstance(q_, (ast.For, ast.comprehension)) and q_.iter is u) \
                                or isinstance(q_, (ast.BinOp, ast.Compare, ast.BoolOp)) or (isinstance(q_, ast.UnaryOp) and isinstance(q_.op, ast.Not)) \
                                or (isinstance(q_, (ast.If, ast.While, ast.IfExp, ast.Assert)) and q_.test is u) \
                                or (isinstance(q_, ast.Call) and isinstance(q_.func, ast.Name) and u in q_.args and q_.func.id in
                                    ("memoryview", "bytes", "bytearray", "len", "int", "float", "str", "list", "tuple", "dict", "set", "sum", "sorted", "min", "max", "bool", "isinstance")) \
                                or (isinstance(q_, ast.withitem) and q_.context_expr is u)
                        if any(value_use(u) for u in uses):
                            how = "used as its result"
                elif isinstance(p_, ast.Assign) and p_.value is n and len(p_.targets) == 1 and isinstance(p_.targets[0], ast.Attribute) \
                        and isinstance(p_.targets[0].value, ast.Name) and f.cls is not None and f.params and p_.targets[0].value.id == f.params[0]:
                    attr_ = p_.targets[0].attr
                    awaited_somewhere = any(isinstance(w, ast.Await) and isinstance(w.value, ast.Attribute) and w.value.attr == attr_
                                            for k_ in prog.mro(f.cls) for m_ in k_.methods.values() for w in ast.walk(m_.node))
                    if not awaited_somewhere:
                        how = "stored in an attribute nobody awaits"
                if how is None:
                    continue
                q = callee(f, n, local_types)
                if q is not None:
                    out.append((f.qual, p_ if isinstance(p_, ast.stmt) else n, q))
    return out


def dropped_exceptions(prog: Program, funcs) -> List[Tuple[str, ast.AST, str]]:
    """[(function, statement, class)]: an expression statement that only constructs an exception (`ProtocolError("...")` where
    `raise ProtocolError("...")` was meant): the guard it stands in rejects nothing."""
    from .helpers import with_helpers
    out, seen = [], set()
    import builtins as _b
    builtin = {n for n in dir(_b) if isinstance(getattr(_b, n), type) and issubclass(getattr(_b, n), BaseException)}
    for f0 in funcs:
        for f in with_helpers(prog, f0):
            if f.qual in seen:
                continue
            seen.add(f.qual)
            for n in ast.walk(f.node):
                if isinstance(n, ast.Expr) and isinstance(n.value, ast.Call):
                    r = prog.resolve_expr(f.module, n.value.func, f.cls)
                    name = None
                    if isinstance(r, ClassInfo) and any(prog.exc_is(r.qual, b) for b in ("Exception", "BaseException")):
                        name = r.qual
                    elif isinstance(n.value.func, ast.Name) and n.value.func.id in builtin and r is None:
                        name = n.value.func.id
                    if name:
                        out.append((f.qual, n, name))
    return out


def held_buffer_mutations(prog: Program, fn) -> List[Tuple[str, str]]:
    """[(attribute, mutation as text)]: in-place stores / mutator calls in `fn` (helpers seen through) on a buffer that is - on some path -
    the object kept in an attribute of the receiver (self.x / cls.x), e.g. a cached header patched per call."""
    from .facts import strip
    from .terms import show, subterms, summarize
    s = summarize(prog, fn)
    recv = fn.params[0] if fn.params and fn.kind in ("method", "classmethod", "property", "setter") else None
    out, seen = [], set()

    def roots(t, depth=0):
        t = strip(t)
        if depth > 12 or not isinstance(t, tuple) or not t:
            return
        if t[0] == "store":
            yield from roots(t[1], depth + 1)
        elif t[0] == "mut":
            yield from roots(t[2], depth + 1)
        elif t[0] == "ite":
            yield from roots(t[2], depth + 1)
            yield from roots(t[3], depth + 1)
        else:
            yield t
    pool = list(s.ta.terms_at.values())
    for _pc, t, _n, rst in s.returns:
        pool.append(t)
        pool += list(rst.env.values())
    for top in pool:
        for x in subterms(top):
            if x[0] not in ("store", "mut") or x in seen:
                continue
            seen.add(x)
            for r in roots(x):
                if r[0] == "attr" and strip(r[1])[0] == "param" and (recv is None or strip(r[1])[1] == recv):
                    item = (r[2], show(x)[:90])
                    if item not in out:
                        out.append(item)
    return out


def unguarded_optional_uses(prog: Program, cls: ClassInfo, attr: str, funcs=None) -> List[Tuple[str, ast.AST]]:
    """`self.<attr>.<x>` in the methods of `cls` where nothing on the way says self.<attr> is not None: neither the path condition of the
    statement (an `is not None` / truthiness / isinstance test, an assert, an early return on None) nor the short-circuit operands to its left
    (`self.a is None or not self.a.alive`, `self.a and self.a.x`, conditional expressions).  A use in a private method of the class is also
    accepted when every place the class calls (or, for a property, reads) that method is itself so guarded: the helper was cut out of guarded
    code.  [(function, node)]"""
    from .facts import atoms, strip
    from .terms import summarize
    out = []
    cache = {}

    def info(f):
        if f.qual not in cache:
            par = {}
            for n in ast.walk(f.node):
                for c in ast.iter_child_nodes(n):
                    par[c] = n
            cache[f.qual] = (summarize(prog, f), par)
        return cache[f.qual]

    def guarded_at(f, node) -> bool:
        s, par = info(f)
        target = ("attr", ("param", f.params[0]), attr)

        def says_nonnull(a) -> bool:
            a = strip(a)
            if a == target:
                return True
            if a[0] == "cmp" and a[1] in ("is not", "!=") and strip(a[2]) == target and a[3] == ("const", None):
                return True
            if a[0] == "call" and a[1] == ("ext", "isinstance") and a[2] and strip(a[2][0]) == target:
                return True
            return False
        # (term, truth) pairs established by short-circuit evaluation on the way from the statement down to `node`
        facts, x = [], node
        while x in par and not isinstance(x, ast.stmt):
            p = par[x]
            if isinstance(p, ast.BoolOp):
                i = next(k for k, v in enumerate(p.values) if v is x)
                for v in p.values[:i]:
                    t = s.ta.terms_at.get(v)
                    if t is not None:
                        facts.append((t, isinstance(p.op, ast.And)))
            elif isinstance(p, ast.IfExp) and x is not p.test:
                t = s.ta.terms_at.get(p.test)
                if t is not None:
                    facts.append((t, x is p.body))
            x = p
        while x is not None and x not in s.ta.env_at:
            x = par.get(x)
        pc = tuple(s.ta.env_at[x].pc) if x is not None else ()
        # a compound statement's own test is evaluated before its body: uses inside the body see it through the body's statements
        return any(says_nonnull(a) for a in atoms(pc + tuple(facts)))

    methods = [m for m in cls.methods.values() if m.params]

    def callers_guarded(f, depth=0, seen=()) -> bool:
        if not (f.name.startswith("_") and not f.name.startswith("__")) or depth > 3 or f.qual in seen:
            return False
        sites = []
        for g in methods:
            recv = g.params[0]
            for n in ast.walk(g.node):
                if isinstance(n, ast.Attribute) and n.attr == f.name and isinstance(n.ctx, ast.Load) and isinstance(n.value, ast.Name) and n.value.id == recv:
                    sites.append((g, n))
        if not sites:
            return False
        return all(guarded_at(g, n) or callers_guarded(g, depth + 1, seen + (f.qual,)) for g, n in sites)

    for f in (funcs if funcs is not None else list(cls.methods.values())):
        if not f.params:
            continue
        recv = f.params[0]
        uses = [n for n in ast.walk(f.node) if isinstance(n, ast.Attribute) and isinstance(n.ctx, ast.Load) and isinstance(n.value, ast.Attribute)
                and n.value.attr == attr and isinstance(n.value.value, ast.Name) and n.value.value.id == recv]
        pending = [u for u in uses if not guarded_at(f, u)]
        if pending and callers_guarded(f):
            continue
        out.extend((f.qual, u) for u in pending)
    return out
