"""Syntax the engines do not model themselves is rewritten, at load time, into syntax they do - by definition of the language, not by
approximation:

  match subject:                      __match_N = subject
      case P1 if g1: b1         ==>   if <test P1 on __match_N> and g1[captures := sub-expressions]: <captures>; b1
      case P2: b2                     elif <test P2>: <captures>; b2
      case _: b3                      else: b3

  with suppress(E1, E2): body                  ==>   try: body
                                                     except (E1, E2): pass           (contextlib.suppress, resolved through the imports)

  with self.cm(): body                         ==>   <statements of cm before its yield>
  (cm a @contextmanager method of the same           try: body
   class, taking only self, one yield)               finally: <statements after the yield>      (or plain sequencing if cm has no try/finally)

Patterns: value, singleton, capture / wildcard, `as`, or-patterns (without captures), class patterns (isinstance + keyword attribute
sub-patterns; one positional sub-pattern on the self-matching builtins), sequence patterns (fixed length and starred; a literal tuple subject
is matched element-wise without building the tuple) and mapping patterns without `**rest`.  Anything else is left in place and the engines
refuse it (exit 2), as before.
"""
import ast
import copy
from typing import List, Optional, Tuple

SELF_MATCHING = {"bool", "bytearray", "bytes", "dict", "float", "frozenset", "int", "list", "set", "str", "tuple"}


class Unsupported(Exception):
    pass


def _and(tests: List[ast.expr]) -> Optional[ast.expr]:
    tests = [t for t in tests if t is not None]
    if not tests:
        return None
    return tests[0] if len(tests) == 1 else ast.BoolOp(op=ast.And(), values=tests)


def _call(name: str, *args) -> ast.expr:
    return ast.Call(func=ast.Name(id=name, ctx=ast.Load()), args=list(args), keywords=[])


def pattern(p: ast.pattern, subj: ast.expr) -> Tuple[Optional[ast.expr], List[Tuple[str, ast.expr]]]:
    """-> (test or None when the pattern always matches, captures [(name, expression of the matched part)])"""
    s = lambda: copy.deepcopy(subj)                                                   # noqa: E731
    if isinstance(p, ast.MatchValue):
        return ast.Compare(left=s(), ops=[ast.Eq()], comparators=[p.value]), []
    if isinstance(p, ast.MatchSingleton):
        return ast.Compare(left=s(), ops=[ast.Is()], comparators=[ast.Constant(value=p.value)]), []
    if isinstance(p, ast.MatchAs):
        if p.pattern is None:
            return None, ([(p.name, s())] if p.name else [])
        t, caps = pattern(p.pattern, subj)
        return t, caps + ([(p.name, s())] if p.name else [])
    if isinstance(p, ast.MatchOr):
        tests = []
        for alt in p.patterns:
            t, caps = pattern(alt, subj)
            if caps:
                raise Unsupported("or-pattern with captures")
            if t is None:
                return None, []
            tests.append(t)
        return ast.BoolOp(op=ast.Or(), values=tests), []
    if isinstance(p, ast.MatchClass):
        tests = [_call("isinstance", s(), p.cls)]
        caps = []
        if p.patterns:
            name = p.cls.id if isinstance(p.cls, ast.Name) else None
            if len(p.patterns) != 1 or name not in SELF_MATCHING:
                raise Unsupported("positional class pattern")
            t, c = pattern(p.patterns[0], subj)
            tests.append(t)
            caps += c
        for attr, sub in zip(p.kwd_attrs, p.kwd_patterns):
            tests.append(_call("hasattr", s(), ast.Constant(value=attr)))
            t, c = pattern(sub, ast.Attribute(value=s(), attr=attr, ctx=ast.Load()))
            tests.append(t)
            caps += c
        return _and(tests), caps
    if isinstance(p, ast.MatchSequence):
        stars = [i for i, q in enumerate(p.patterns) if isinstance(q, ast.MatchStar)]
        if len(stars) > 1:
            raise Unsupported("two stars")
        n = len(p.patterns)
        tests, caps = [], []
        if isinstance(subj, ast.Tuple) and not stars:
            if len(subj.elts) != n:
                return ast.Constant(value=False), []
            for q, e in zip(p.patterns, subj.elts):
                t, c = pattern(q, e)
                tests.append(t)
                caps += c
            return _and(tests), caps
        tests.append(_call("isinstance", s(), ast.Tuple(elts=[ast.Name(id="list", ctx=ast.Load()), ast.Name(id="tuple", ctx=ast.Load())], ctx=ast.Load())))
        ln = _call("len", s())
        if not stars:
            tests.append(ast.Compare(left=ln, ops=[ast.Eq()], comparators=[ast.Constant(value=n)]))
        else:
            tests.append(ast.Compare(left=ln, ops=[ast.GtE()], comparators=[ast.Constant(value=n - 1)]))
        for i, q in enumerate(p.patterns):
            if isinstance(q, ast.MatchStar):
                if q.name:
                    after = n - 1 - i
                    caps.append((q.name, _call("list", ast.Subscript(value=s(), slice=ast.Slice(
                        lower=ast.Constant(value=i), upper=(ast.UnaryOp(op=ast.USub(), operand=ast.Constant(value=after)) if after else None)), ctx=ast.Load()))))
                continue
            idx = i if not stars or i < stars[0] else i - n
            t, c = pattern(q, ast.Subscript(value=s(), slice=ast.Constant(value=idx) if idx >= 0 else ast.UnaryOp(op=ast.USub(), operand=ast.Constant(value=-idx)),
                                            ctx=ast.Load()))
            tests.append(t)
            caps += c
        return _and(tests), caps
    if isinstance(p, ast.MatchMapping):
        if p.rest:
            raise Unsupported("mapping pattern with **rest")
        tests, caps = [_call("isinstance", s(), ast.Name(id="dict", ctx=ast.Load()))], []
        for k, q in zip(p.keys, p.patterns):
            tests.append(ast.Compare(left=k, ops=[ast.In()], comparators=[s()]))
            t, c = pattern(q, ast.Subscript(value=s(), slice=copy.deepcopy(k), ctx=ast.Load()))
            tests.append(t)
            caps += c
        return _and(tests), caps
    raise Unsupported(type(p).__name__)


class _Subst(ast.NodeTransformer):
    def __init__(self, env):
        self.env = env

    def visit_Name(self, n):
        if isinstance(n.ctx, ast.Load) and n.id in self.env:
            return copy.deepcopy(self.env[n.id])
        return n


class MatchRewriter(ast.NodeTransformer):
    def __init__(self):
        self.n = 0
        self.rewritten = 0

    def visit_Match(self, node: ast.Match):
        self.generic_visit(node)
        try:
            return self._rewrite(node)
        except Unsupported:
            return node

    def _rewrite(self, node: ast.Match):
        self.n += 1
        pre: List[ast.stmt] = []
        subj = node.subject
        if isinstance(subj, ast.Tuple) and all(isinstance(c.pattern, ast.MatchSequence) or (isinstance(c.pattern, ast.MatchAs) and c.pattern.pattern is None and not c.pattern.name)
                                               for c in node.cases):
            elts = []
            for i, e in enumerate(subj.elts):
                if isinstance(e, (ast.Name, ast.Constant)):
                    elts.append(e)
                else:
                    tmp = f"__match_{self.n}_{i}"
                    pre.append(ast.Assign(targets=[ast.Name(id=tmp, ctx=ast.Store())], value=e))
                    elts.append(ast.Name(id=tmp, ctx=ast.Load()))
            subj = ast.Tuple(elts=elts, ctx=ast.Load())
        elif not isinstance(subj, ast.Name):
            tmp = f"__match_{self.n}"
            pre.append(ast.Assign(targets=[ast.Name(id=tmp, ctx=ast.Store())], value=subj))
            subj = ast.Name(id=tmp, ctx=ast.Load())
        chain: List[Tuple[Optional[ast.expr], List[ast.stmt]]] = []
        for c in node.cases:
            test, caps = pattern(c.pattern, subj)
            guard = c.guard
            if guard is not None and caps:
                guard = _Subst({n: e for n, e in caps}).visit(copy.deepcopy(guard))
            test = _and([test, guard])
            body = [ast.Assign(targets=[ast.Name(id=n, ctx=ast.Store())], value=e) for n, e in caps] + list(c.body)
            chain.append((test, body))
            if test is None:
                break
        # build the if / elif / else chain from the back
        orelse: List[ast.stmt] = []
        for test, body in reversed(chain):
            if test is None:
                orelse = body
            else:
                orelse = [ast.If(test=test, body=body, orelse=orelse)]
        out = pre + (orelse or [ast.Pass()])
        for st in out:
            ast.copy_location(st, node)
            ast.fix_missing_locations(st)
        self.rewritten += 1
        return out


def _contextlib_names(tree: ast.Module):
    """local spellings of contextlib.suppress / contextlib.contextmanager / the module itself"""
    sup, cm, mod = set(), set(), set()
    for n in ast.walk(tree):
        if isinstance(n, ast.ImportFrom) and n.module == "contextlib":
            for a in n.names:
                if a.name == "suppress":
                    sup.add(a.asname or a.name)
                if a.name == "contextmanager":
                    cm.add(a.asname or a.name)
        elif isinstance(n, ast.Import):
            for a in n.names:
                if a.name == "contextlib":
                    mod.add(a.asname or a.name)
    return sup, cm, mod


def _is(e: ast.expr, names: set, mods: set, attr: str) -> bool:
    return (isinstance(e, ast.Name) and e.id in names) or (isinstance(e, ast.Attribute) and e.attr == attr and isinstance(e.value, ast.Name) and e.value.id in mods)


class WithRewriter(ast.NodeTransformer):
    def __init__(self, tree):
        self.sup, self.cm, self.mod = _contextlib_names(tree)
        self.cls: List[ast.ClassDef] = []
        self.rewritten = 0
        self.inlined = set()

    def drop_unused_managers(self, tree):
        """a context-manager method all of whose uses were inlined is gone from the program the engines see"""
        for name in self.inlined:
            if any(isinstance(n, ast.Attribute) and n.attr == name for n in ast.walk(tree)):
                continue
            for c in ast.walk(tree):
                if isinstance(c, ast.ClassDef):
                    c.body = [f for f in c.body if not (isinstance(f, ast.FunctionDef) and f.name == name)] or [ast.Pass()]

    def visit_ClassDef(self, n):
        self.cls.append(n)
        self.generic_visit(n)
        self.cls.pop()
        return n

    def _manager(self, name: str):
        """(before, after, protected) of a simple generator context manager `name` of the enclosing class"""
        for c in reversed(self.cls):
            for f in c.body:
                if isinstance(f, ast.FunctionDef) and f.name == name and any(_is(d, self.cm, self.mod, "contextmanager") for d in f.decorator_list):
                    if len(f.args.args) != 1 or f.args.vararg or f.args.kwarg or f.args.kwonlyargs:
                        return None
                    body = [st for st in f.body if not (isinstance(st, ast.Expr) and isinstance(st.value, ast.Constant) and isinstance(st.value.value, str))]
                    if sum(isinstance(x, (ast.Yield, ast.YieldFrom)) for st in body for x in ast.walk(st)) != 1:
                        return None
                    for i, st in enumerate(body):
                        def bare_yield(x):
                            return isinstance(x, ast.Expr) and isinstance(x.value, ast.Yield) and x.value.value is None
                        if bare_yield(st):
                            return body[:i], body[i + 1:], False
                        if isinstance(st, ast.Try) and not st.handlers and not st.orelse and len(st.body) == 1 and bare_yield(st.body[0]) and i == len(body) - 1:
                            return body[:i], st.finalbody, True
                        if any(isinstance(x, (ast.Yield, ast.YieldFrom)) for x in ast.walk(st)):
                            return None
        return None

    def visit_With(self, node: ast.With):
        self.generic_visit(node)
        if len(node.items) != 1 or node.items[0].optional_vars is not None:
            return node
        ce = node.items[0].context_expr
        if isinstance(ce, ast.Call) and _is(ce.func, self.sup, self.mod, "suppress") and ce.args and not ce.keywords:
            typ = ce.args[0] if len(ce.args) == 1 else ast.Tuple(elts=list(ce.args), ctx=ast.Load())
            new = ast.Try(body=node.body, handlers=[ast.ExceptHandler(type=typ, name=None, body=[ast.Pass()])], orelse=[], finalbody=[])
            self.rewritten += 1
            return ast.fix_missing_locations(ast.copy_location(new, node))
        if (isinstance(ce, ast.Call) and not ce.args and not ce.keywords and isinstance(ce.func, ast.Attribute)
                and isinstance(ce.func.value, ast.Name) and ce.func.value.id == "self" and self.cls):
            m = self._manager(ce.func.attr)
            if m is not None:
                before, after, protected = m
                before, after = copy.deepcopy(before), copy.deepcopy(after)
                if protected:
                    out = before + [ast.Try(body=node.body, handlers=[], orelse=[], finalbody=after or [ast.Pass()])]
                else:
                    out = before + node.body + after
                for st in out:
                    ast.copy_location(st, node)
                    ast.fix_missing_locations(st)
                self.rewritten += 1
                self.inlined.add(ce.func.attr)
                return out
        return node


class AnnRewriter(ast.NodeTransformer):
    """Inside function bodies an annotated assignment `x: T = v` is the assignment `x = v` (the annotation is not evaluated for attribute and
    subscript targets' values and has no run-time effect on locals); a bare `x: T` there does nothing.  Class bodies are left alone: there the
    annotations declare record fields."""

    def __init__(self):
        self.depth = 0
        self.rewritten = 0

    def visit_FunctionDef(self, n):
        self.depth += 1
        self.generic_visit(n)
        self.depth -= 1
        return n
    visit_AsyncFunctionDef = visit_FunctionDef

    def visit_ClassDef(self, n):
        saved, self.depth = self.depth, 0
        self.generic_visit(n)
        self.depth = saved
        return n

    def visit_AnnAssign(self, n):
        if not self.depth:
            return n
        self.rewritten += 1
        if n.value is None:
            return ast.copy_location(ast.Pass(), n)
        return ast.copy_location(ast.Assign(targets=[n.target], value=n.value, type_comment=None), n)


class LazyTemplateRewriter(ast.NodeTransformer):
    """A read-only object built on first use - `t = None` ... `if t is None: t = C(<constants>)` ... `getattr(t, n)` / `t.attr` - is, for everything
    the rules ask, a `C(<constants>)` built where it is used: the guard only saves constructing it again.  Rewritten to the unconditional
    `t = C(<constants>)` at the guard, but only when the local is never anything else (one `None` store, one guarded constructor store), the
    constructor's arguments are constants / module-level names / a starred module-level name, and every use of the local is an attribute
    read, the first argument of getattr / hasattr / isinstance / type, or the `is None` test itself (nothing can mutate the object)."""

    def __init__(self):
        self.rewritten = 0

    def visit_FunctionDef(self, fn):
        self.generic_visit(fn)
        stores, loads = {}, {}
        par = {}
        for n in ast.walk(fn):
            for c in ast.iter_child_nodes(n):
                par[c] = n
        for n in ast.walk(fn):
            if isinstance(n, ast.Name):
                (stores if isinstance(n.ctx, ast.Store) else loads).setdefault(n.id, []).append(n)
        params = {a.arg for a in fn.args.posonlyargs + fn.args.args + fn.args.kwonlyargs} | {a.arg for a in (fn.args.vararg, fn.args.kwarg) if a}
        for name, sts in stores.items():
            if len(sts) != 2 or name in params:
                continue
            asg = [par.get(x) for x in sts]
            if not all(isinstance(a, ast.Assign) and len(a.targets) == 1 and a.targets[0] is x for a, x in zip(asg, sts)):
                continue
            none = [a for a in asg if isinstance(a.value, ast.Constant) and a.value.value is None]
            ctor = [a for a in asg if isinstance(a.value, ast.Call) and isinstance(a.value.func, ast.Name) and a.value.func.id[:1].isupper()]
            if len(none) != 1 or len(ctor) != 1:
                continue
            guard = par.get(ctor[0])
            if not (isinstance(guard, ast.If) and not guard.orelse and guard.body == [ctor[0]] and isinstance(guard.test, ast.Compare) and len(guard.test.ops) == 1
                    and isinstance(guard.test.ops[0], ast.Is) and isinstance(guard.test.left, ast.Name) and guard.test.left.id == name
                    and isinstance(guard.test.comparators[0], ast.Constant) and guard.test.comparators[0].value is None):
                continue
            c = ctor[0].value

            def plain(a):
                if isinstance(a, ast.Starred):
                    a = a.value
                return isinstance(a, ast.Constant) or (isinstance(a, ast.Name) and a.id not in stores and a.id not in params)
            if not all(plain(a) for a in c.args) or not all(k.arg is not None and plain(k.value) for k in c.keywords):
                continue
            ok = True
            for u in loads.get(name, []):
                pu = par.get(u)
                if u is guard.test.left:
                    continue
                if isinstance(pu, ast.Attribute) and pu.value is u and isinstance(pu.ctx, ast.Load) and not (isinstance(par.get(pu), ast.Call) and par[pu].func is pu):
                    continue
                if isinstance(pu, ast.Call) and isinstance(pu.func, ast.Name) and pu.func.id in ("getattr", "hasattr", "isinstance", "type") and pu.args and pu.args[0] is u:
                    continue
                ok = False
            if not ok:
                continue
            owner = par.get(guard)
            for field in ("body", "orelse", "finalbody"):
                lst = getattr(owner, field, None)
                if isinstance(lst, list) and guard in lst:
                    lst[lst.index(guard)] = ctor[0]
                    self.rewritten += 1
        return fn
    visit_AsyncFunctionDef = visit_FunctionDef


def rewrite(tree: ast.AST) -> int:
    """in place; -> number of match statements rewritten"""
    a = AnnRewriter()
    a.visit(tree)
    r = MatchRewriter()
    r.visit(tree)
    w = WithRewriter(tree)
    if w.sup or w.cm or w.mod:
        w.visit(tree)
        w.drop_unused_managers(tree)
    lz = LazyTemplateRewriter()
    lz.visit(tree)
    ast.fix_missing_locations(tree)
    return r.rewritten + w.rewritten + a.rewritten + lz.rewritten
