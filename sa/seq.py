"""E3 - byte-sequence layout domain.

An abstract `bytes` value is a list of segments, each with an affine length (Lin over symbolic lengths):

  Const(b)                      literal bytes
  Zeros(n)                      n zero bytes
  Byte(term)                    one byte whose value is the integer term (from bytes([..]) / bytearray stores / append)
  Field(n, term, order)         integer term serialised on n bytes (to_bytes / struct.pack)
  Opaque(label, length, of)     bytes we do not look into: a caller-supplied buffer ('param:<name>'), random padding,
                                a ciphertext ('enc:ecb' / 'enc:cbc', of = plaintext layout, key term)
  Digest(alg, n, over)          md5 / sha256 digest over the layout `over`

`layout(term)` evaluates a value-flow term into such a list, inlining repository helpers through their summaries.
Everything here is derived from the terms of the *current* source; nothing is executed.
"""
from __future__ import annotations

import struct as _struct
from typing import Dict, List, Optional, Tuple

from .affine import Lin, lin
from .facts import call_is, meth_is, strip
from .model import AnalysisError, Program
from .terms import Term, bind_args, is_const, show, summarize, subterms, unview


class Seg:
    kind = "?"

    def __init__(self, n):
        self.n = n if isinstance(n, Lin) else Lin(n)

    def show(self):
        return f"{self.kind}({self.n})"

    def __repr__(self):
        return self.show()

    def key(self):
        return (self.kind, repr(self.n))

    def __eq__(self, o):
        return isinstance(o, Seg) and self.key() == o.key()

    def __hash__(self):
        return hash(self.key())


class Const(Seg):
    kind = "const"

    def __init__(self, b: bytes):
        super().__init__(len(b))
        self.b = bytes(b)

    def show(self):
        return self.b.hex() or "''"

    def key(self):
        return ("const", self.b)


class Zeros(Seg):
    kind = "zeros"

    def show(self):
        return f"zeros({self.n})"


class Byte(Seg):
    kind = "byte"

    def __init__(self, term):
        super().__init__(1)
        self.term = term

    def show(self):
        return f"byte[{show(self.term)}]"

    def key(self):
        return ("byte", self.term)


class Field(Seg):
    kind = "field"

    def __init__(self, n, term, order):
        super().__init__(n)
        self.term, self.order = term, order

    def show(self):
        return f"{'LE' if self.order == 'little' else 'BE'}{int(self.n.c) * 8}({show(self.term)})"

    def key(self):
        return ("field", repr(self.n), self.term, self.order)


class Opaque(Seg):
    kind = "opaque"

    def __init__(self, label, n, of=None, key=None):
        super().__init__(n)
        self.label, self.of, self.keyterm = label, of, key

    def show(self):
        inner = " ‖ ".join(s.show() for s in self.of) if self.of else ""
        return f"{self.label}({inner})" if inner else f"{self.label}[{self.n}]"

    def key(self):
        return ("opaque", self.label, repr(self.n), tuple(s.key() for s in self.of) if self.of else None, self.keyterm)


class Digest(Seg):
    kind = "digest"

    def __init__(self, alg, n, over, suffix=None):
        super().__init__(n)
        self.alg, self.over, self.suffix = alg, over, suffix

    def show(self):
        return f"{self.alg}(" + " ‖ ".join(s.show() for s in self.over) + ")"

    def key(self):
        return ("digest", self.alg, tuple(s.key() for s in self.over))


Layout = List[Seg]


def total(lay: Layout) -> Lin:
    out = Lin(0)
    for s in lay:
        out = out + s.n
    return out


def show_layout(lay: Layout) -> str:
    return " ‖ ".join(s.show() for s in lay)


def flatten(lay: Layout) -> Layout:
    """Merge adjacent constants; split nothing."""
    out: Layout = []
    for s in lay:
        if isinstance(s, Const) and not s.b:
            continue
        if isinstance(s, Zeros) and s.n == Lin(0):
            continue
        if out and isinstance(s, Const) and isinstance(out[-1], Const):
            out[-1] = Const(out[-1].b + s.b)
        else:
            out.append(s)
    return out


def explode(lay: Layout) -> Optional[List[Seg]]:
    """Per-byte view for layouts whose segments are Const / Zeros / Byte / constant-length others.
    Returns a list where multi-byte segments are repeated with an index: (seg, i)."""
    out = []
    for s in lay:
        if not s.n.is_const():
            return None
        n = int(s.n.c)
        if isinstance(s, Const):
            out += [("c", s.b[i]) for i in range(n)]
        elif isinstance(s, Zeros):
            out += [("c", 0)] * n
        elif isinstance(s, Byte):
            out.append(("t", s.term))
        else:
            out += [("s", s, i) for i in range(n)]
    return out


def pad16(n: Lin, label="pkcs7") -> Lin:
    """Length of a PKCS7-padded (block 16) buffer of length n, as a fresh symbol over n."""
    if n.is_const():
        c = int(n.c)
        return Lin((c // 16 + 1) * 16)
    return Lin(0, {("padded16", repr(n)): 1})


class Layouts:
    def __init__(self, prog: Program, depth=4):
        self.prog, self.depth = prog, depth
        self.notes: List[str] = []

    # ------------------------------------------------------------------ entry
    def layout(self, t: Term, depth=0) -> Layout:
        return flatten(self._lay(t, depth))

    def _unknown(self, t, why=""):
        raise AnalysisError(f"byte layout: cannot evaluate `{show(t)[:120]}` {why}")

    def _lay(self, t: Term, depth) -> Layout:
        if depth > 12:
            self._unknown(t, "(inlining depth)")
        k = t[0]
        if k == "const":
            v = t[1]
            if isinstance(v, (bytes, bytearray)):
                return [Const(bytes(v))]
            self._unknown(t, "(not bytes)")
        if k == "param":
            return [Opaque(f"param:{t[1]}", Lin(0, {("len", t[1]): 1}))]
        if k == "bin" and t[1] == "+":
            return self._lay(t[2], depth) + self._lay(t[3], depth)
        if k == "bin" and t[1] == "*":
            # [0] * n / b"\x00" * n / n * [...]: the layout repeated a constant number of times
            a, b = strip(t[2]), strip(t[3])
            if is_const(a) and isinstance(a[1], int):
                a, b = b, a
            if is_const(b) and isinstance(b[1], int) and not isinstance(b[1], bool) and 0 <= b[1] <= 4096:
                one = self._lay(a, depth)
                if all(s_.n.is_const() for s_ in one):
                    return one * b[1]
            self._unknown(t, "(repetition)")
        if k in ("list", "tuple"):
            # a list of integers used as a byte buffer (later passed through bytes(...))
            out = []
            for it in t[1]:
                it2 = strip(it)
                if is_const(it2) and isinstance(it2[1], int) and not isinstance(it2[1], bool) and 0 <= it2[1] <= 255:
                    out.append(Const(bytes([it2[1]])))
                elif it2[0] == "enum" and 0 <= it2[3] <= 255:
                    out.append(Const(bytes([it2[3]])))
                elif it2[0] == "starred":
                    self._unknown(t, "(starred element)")
                else:
                    out.append(Byte(it))
            return out
        if k == "ite":
            a, b = self.layout(t[2], depth), self.layout(t[3], depth)
            if [s.key() for s in a] == [s.key() for s in b]:
                return a
            return [Opaque("ite", Lin(0, {("len-ite", show(t)[:40]): 1}), of=None, key=t)]
        if k == "store":
            base = self.layout(t[1], depth)
            idx = t[2]
            if idx[0] == "sliceidx" and idx[3] is None and (idx[1] is None or is_const(idx[1])) and idx[2] is not None and is_const(idx[2]):
                lo, hi = (idx[1][1] if idx[1] is not None else 0), idx[2][1]
                val = flatten(self.layout(t[3], depth))
                vex = explode(val)
                tv = total(val)
                if lo < 0 or hi < lo or not (tv.is_const() and tv.c == hi - lo):
                    self._unknown(t, "(slice store of a different length)")
                if vex is not None and all(cell[0] in ("c", "t") for cell in vex):
                    cur = base
                    for k, cell in enumerate(vex):
                        cur = self._store(cur, lo + k, ("const", cell[1]) if cell[0] == "c" else cell[1], t)
                    return cur
                # wider fields / digests / opaque values of the right total length: buf[lo:hi] = v is buf[:lo] + v + buf[hi:]
                return flatten(self._slice(base, 0, lo, t) + val + self._slice(base, hi, None, t))
            if not (is_const(idx) and isinstance(idx[1], int)):
                self._unknown(t, "(non-constant store index)")
            return self._store(base, idx[1], t[3], t)
        if k == "mut":
            m, old, args = t[1], t[2], t[3]
            base = self._lay(old, depth)
            if m == "append":
                return base + [Byte(args[0])]
            if m == "extend":
                return base + self._lay(args[0], depth)
            self._unknown(t, f"(mutator {m})")
        if k == "slice":
            base = self.layout(t[1], depth)
            lo = 0 if t[2] is None else (t[2][1] if is_const(t[2]) else None)
            hi = None if t[3] is None else (t[3][1] if is_const(t[3]) else ...)
            if lo is None or hi is ... or t[4] is not None:
                self._unknown(t, "(non-constant slice)")
            return self._slice(base, lo, hi, t)
        if k == "call":
            return self._call(t, depth)
        if k == "loopvar":
            return [Opaque(f"loop:{t[1]}", Lin(0, {("len", f"loop:{t[1]}"): 1}))]
        if k == "attr":
            return [Opaque(f"attr:{show(t)}", Lin(0, {("len", show(t)): 1}))]
        if k == "sub" and is_const(strip(t[1])) and isinstance(strip(t[1])[1], (tuple, list)) and strip(t[1])[1] \
                and all(isinstance(x, bytes) for x in strip(t[1])[1]) and len({len(x) for x in strip(t[1])[1]}) == 1:
            # TABLE[i] for a table of equally long byte strings: that many bytes, each a function of i
            n = len(strip(t[1])[1][0])
            return [Byte(("sub", t, ("const", j))) for j in range(n)]
        if k == "item":
            return [Opaque(f"item:{show(t)[:40]}", Lin(0, {("len", show(t)[:40]): 1}))]
        self._unknown(t)

    def int_lin(self, t: Term) -> Lin:
        """Affine form of an integer term with every len(<bytes term>) replaced by the length of its layout."""
        sub = {}
        for x in subterms(t):
            if call_is(x, "len") and len(x[2]) == 1:
                try:
                    sub[x] = total(self.layout(x[2][0]))
                except AnalysisError:
                    pass
        return lin(t, sub)

    # ------------------------------------------------------------------ helpers
    def _store(self, base: Layout, idx: int, val: Term, t) -> Layout:
        ex = explode(base)
        if (ex is None or any(e[0] not in ("c", "t") for e in ex)) and idx >= 0:
            # a buffer with wider fields in it: buf[i] = v is buf[:i] + [v] + buf[i+1:] (fails, as before, when i falls inside a field)
            one = Const(bytes([val[1]])) if is_const(val) and isinstance(val[1], int) and 0 <= val[1] <= 255 and not isinstance(val[1], bool) else Byte(val)
            return flatten(self._slice(base, 0, idx, t) + [one] + self._slice(base, idx + 1, None, t))
        if ex is None or not (0 <= idx < len(ex)):
            self._unknown(t, "(store outside a fixed-size buffer)")
        out: Layout = []
        for i, e in enumerate(ex):
            if i == idx:
                out.append(Const(bytes([val[1]])) if is_const(val) and isinstance(val[1], int) and 0 <= val[1] <= 255 and not isinstance(val[1], bool) else Byte(val))
            elif e[0] == "c":
                out.append(Const(bytes([e[1]])))
            elif e[0] == "t":
                out.append(Byte(e[1]))
            else:
                self._unknown(t, "(store into a composite buffer)")
        return flatten(out)

    def _slice(self, base: Layout, lo: int, hi, t) -> Layout:
        # only leading / trailing constant-length trimming is needed (frame[1:], frame[1:-1], x[0:1])
        out = list(base)
        if lo < 0:
            self._unknown(t, "(negative slice start)")
        rem = lo
        while rem > 0:
            if not out:
                return []
            s = out[0]
            if not s.n.is_const():
                self._unknown(t, "(slice start inside a variable-length segment)")
            n = int(s.n.c)
            if n <= rem:
                out.pop(0)
                rem -= n
            else:
                out[0] = self._cut(s, rem, n, t)
                rem = 0
        if hi is None:
            return out
        if hi < 0:
            rem = -hi
            while rem > 0:
                if not out:
                    return []
                s = out[-1]
                if not s.n.is_const():
                    self._unknown(t, "(slice end inside a variable-length segment)")
                n = int(s.n.c)
                if n <= rem:
                    out.pop()
                    rem -= n
                else:
                    out[-1] = self._cut(s, 0, n - rem, t)
                    rem = 0
            return out
        # absolute end
        want = hi - lo
        res, acc = [], 0
        for s in out:
            if acc >= want:
                break
            if not s.n.is_const():
                self._unknown(t, "(absolute slice end past a variable-length segment)")
            n = int(s.n.c)
            if acc + n <= want:
                res.append(s)
                acc += n
            else:
                res.append(self._cut(s, 0, want - acc, t))
                acc = want
        return res

    def _cut(self, s: Seg, a: int, b: int, t) -> Seg:
        if isinstance(s, Const):
            return Const(s.b[a:b])
        if isinstance(s, Zeros):
            return Zeros(b - a)
        self._unknown(t, "(slice cuts through a field)")

    def int_list(self, t: Term) -> Optional[List[Term]]:
        t = strip(t)
        if t[0] in ("list", "tuple"):
            return list(t[1])
        return None

    def _inline(self, qual: str, args, kwargs, depth) -> Term:
        fn = self.prog.funcs.get(qual)
        if fn is None:
            return None
        amap = bind_args(fn, args, kwargs)
        s = summarize(self.prog, fn, amap)
        return s.return_term()

    def _call(self, t: Term, depth) -> Layout:
        fr, args, kwargs = t[1], t[2], t[3]
        if fr[0] == "ext" and fr[1] in ("bytes", "bytearray") and len(args) == 1 and args[0][0] == "slice" and args[0][1][0] == "param" \
                and args[0][1][1] in ("args",):
            # bytes(args[0:1]) - bytes built from a slice of the *argument tuple* (integers), not a view of a buffer
            a = args[0]
            return [Opaque(f"bytes-of:{show(a)[:40]}", Lin(0, {("len", show(a)[:40]): 1}), key=a)]
        # ---- content-preserving views
        u = unview(t)
        if u is not t and u != t:
            return self._lay(u, depth)
        if fr[0] == "ext":
            name = fr[1]
            if name in ("bytes", "bytearray"):
                if not args:
                    return []
                a = args[0]
                if is_const(a) and isinstance(a[1], int):
                    return [Zeros(a[1])]
                if a[0] == "bin" and a[1] in ("-", "+") and any(call_is(x, "len") for x in subterms(a)):
                    # bytes(40 - len(header)): zero padding up to a fixed size - its length is the affine form, constant once the lengths are
                    try:
                        n_ = self.int_lin(a)
                    except Exception:
                        n_ = None
                    if n_ is not None and n_.is_const() and 0 <= n_.c <= 4096:
                        return [Zeros(int(n_.c))]
                items = self.int_list(a)
                if items is not None:
                    out = []
                    for it in items:
                        if is_const(it) and isinstance(it[1], int) and not isinstance(it[1], bool) and 0 <= it[1] <= 255:
                            out.append(Const(bytes([it[1]])))
                        elif it[0] == "enum" and 0 <= it[3] <= 255:
                            out.append(Const(bytes([it[3]])))
                        else:
                            out.append(Byte(it))
                    return out
                if a[0] == "slice" and a[1][0] in ("tuple", "list", "param"):
                    # bytes(args[0:1]) - one element of an argument tuple
                    return [Opaque(f"bytes-of:{show(a)[:40]}", Lin(0, {("len", show(a)[:40]): 1}), key=a)]
                return self._lay(a, depth)
            if name == "struct.pack":
                fmt = args[0][1] if args and is_const(args[0]) and isinstance(args[0][1], str) else None
                if fmt is None:
                    self._unknown(t, "(struct.pack format)")
                order = "little" if fmt.startswith("<") else ("big" if fmt.startswith((">", "!")) else "little")
                import re as _re
                toks = _re.findall(r"(\d*)([A-Za-z?])", fmt.lstrip("<>!=@").replace(" ", ""))
                sizes = {"B": 1, "b": 1, "H": 2, "h": 2, "I": 4, "i": 4, "L": 4, "l": 4, "Q": 8, "q": 8}
                vals = []
                for a_ in args[1:]:
                    if a_[0] == "starred" and strip(a_[1])[0] in ("tuple", "list"):
                        vals += list(strip(a_[1])[1])
                    else:
                        vals.append(a_)
                out, k = [], 0
                for cnt, ch in toks:
                    n = int(cnt) if cnt else 1
                    if ch == "x":
                        out.append(Zeros(n))
                    elif ch == "s":
                        # one bytes value on exactly n bytes (shorter values are zero-padded by struct)
                        if k >= len(vals):
                            self._unknown(t, "(struct.pack format/arity)")
                        inner = self.layout(vals[k], depth)
                        k += 1
                        tl_ = total(inner)
                        if not tl_.is_const() or int(tl_.c) > n:
                            self._unknown(t, "(struct.pack 's' field of unknown / larger size)")
                        out += inner + ([Zeros(n - int(tl_.c))] if int(tl_.c) < n else [])
                    elif ch in sizes:
                        for _ in range(n):
                            if k >= len(vals):
                                self._unknown(t, "(struct.pack format/arity)")
                            v = vals[k]
                            k += 1
                            if ch in "bhilq":
                                self.notes.append(f"struct.pack format {fmt!r} uses a signed code")
                                v = ("signed", v)
                            out.append(Field(sizes[ch], v, order) if sizes[ch] > 1 else Byte(v))
                    else:
                        self._unknown(t, "(struct.pack format code)")
                if k != len(vals):
                    self._unknown(t, "(struct.pack format/arity)")
                return out
            if name == "Crypto.Random.get_random_bytes":
                return [Opaque("random", lin(args[0]) or Lin(0, {args[0]: 1}), key=args[0])]
            if name == "Crypto.Util.Padding.pad":
                inner = self.layout(args[0], depth)
                return inner + [Opaque("pkcs7pad", pad16(total(inner)) - total(inner))]
            if name == "Crypto.Util.strxor.strxor":
                a = self.layout(args[0], depth)
                return [Opaque("xor", total(a), of=a, key=args[1])]
            self._unknown(t, f"(library call {name})")
        if fr[0] == "meth":
            recv, m = fr[1], fr[2]
            if m == "to_bytes":
                n = args[0][1] if args and is_const(args[0]) else (dict(kwargs).get("length", ("const", None))[1])
                order = args[1][1] if len(args) > 1 and is_const(args[1]) else (dict(kwargs).get("byteorder", ("const", "big"))[1])
                if n is None:
                    self._unknown(t, "(to_bytes width)")
                if n == 1:
                    return [Byte(recv)]
                return [Field(n, recv, order)]
            if m in ("ljust", "rjust") and args and is_const(args[0]) and isinstance(args[0][1], int):
                fill = args[1][1] if len(args) > 1 and is_const(args[1]) else b" "
                inner = self.layout(recv, depth)
                tl_ = total(inner)
                if isinstance(fill, (bytes, bytearray)) and len(fill) == 1 and tl_.is_const():
                    padn = max(0, args[0][1] - int(tl_.c))
                    padseg = [Zeros(padn)] if fill == b"\x00" else [Const(bytes(fill) * padn)]
                    return (inner + padseg) if m == "ljust" else (padseg + inner)
                self._unknown(t, "(ljust/rjust of a variable-length value)")
            if m == "join" and is_const(recv) and recv[1] == b"" and len(args) == 1:
                a = strip(args[0])
                if a[0] in ("tuple", "list"):
                    out = []
                    for x in a[1]:
                        out += self._lay(x, depth)
                    return out
                if a[0] == "comp":
                    inner = self.layout(a[2], depth)
                    return [Opaque("repeat", Lin(0, {("len-repeat", show(a[3][0][1])[:40]): 1}), of=inner, key=a)]
                self._unknown(t, "(join of a non-literal sequence)")
            if m == "digest":
                from .facts import digest_parts
                dp = digest_parts(t)
                if dp is not None and dp[0] in ("md5", "sha256", "sha1"):
                    over = []
                    for part in dp[1]:
                        over += self._lay(part, depth)
                    return [Digest(dp[0], {"md5": 16, "sha256": 32, "sha1": 20}[dp[0]], flatten(over))]
            if m in ("encrypt", "decrypt") and call_is(recv, "Crypto.Cipher.AES.new"):
                mode = recv[2][1] if len(recv[2]) > 1 else None
                mode_s = "cbc" if mode == ("const", ("AES", "CBC")) or (mode and "MODE_CBC" in show(mode)) else (
                    "ecb" if mode == ("const", ("AES", "ECB")) or (mode and "MODE_ECB" in show(mode)) else "?")
                inner = self.layout(args[0], depth)
                iv = dict(recv[3]).get("iv")
                return [Opaque(f"{'enc' if m == 'encrypt' else 'dec'}:{mode_s}", total(inner), of=inner, key=(recv[2][0], iv))]
            if m == "encode" and is_const(recv):
                return [Const(recv[1].encode())]
            # a bytes value produced by a call we do not look into: one opaque segment identified by its term
            return [Opaque(f"value:{show(t)[:60]}", Lin(0, {("len", show(t)[:60]): 1}), key=t)]
        if fr[0] == "func":
            q = fr[1]
            rt = self._inline(q, args, kwargs, depth)
            if rt is None:
                self._unknown(t, "(constructor / unknown function)")
            return self._lay(rt, depth + 1)
        self._unknown(t, "(dynamic call)")
