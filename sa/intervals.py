"""Interval evaluation of integer / rational value-flow terms (closed intervals over Fractions)."""
from __future__ import annotations

import math
from fractions import Fraction
from typing import Callable, Optional, Tuple

from .facts import call_is, strip
from .terms import Term, is_const

Iv = Tuple[Fraction, Fraction]


def iv_of(t: Term, leaf: Callable[[Term], Optional[Iv]]) -> Optional[Iv]:
    """Interval of term t; `leaf` supplies intervals for non-arithmetic leaves (returns None if unknown)."""
    t = strip(t)
    k = t[0]
    if is_const(t) and isinstance(t[1], (int, float)) and not isinstance(t[1], bool):
        v = Fraction(t[1]).limit_denominator(10**9) if isinstance(t[1], float) else Fraction(t[1])
        return (v, v)
    if is_const(t) and isinstance(t[1], bool):
        return (Fraction(int(t[1])), Fraction(int(t[1])))
    if k == "enum":
        return (Fraction(t[3]), Fraction(t[3]))
    r = leaf(t)
    if r is not None:
        return (Fraction(r[0]), Fraction(r[1]))
    if k == "bin":
        a, b = iv_of(t[2], leaf), iv_of(t[3], leaf)
        op = t[1]
        if op == "&" and (a is None) != (b is None):
            # x & M for a non-negative constant M lies in 0..M whatever the integer x is
            m = a if b is None else b
            if m[0] == m[1] and m[0] >= 0:
                return (Fraction(0), m[0])
        if a is None or b is None:
            return None
        if op == "+":
            return (a[0] + b[0], a[1] + b[1])
        if op == "-":
            return (a[0] - b[1], a[1] - b[0])
        if op == "*":
            c = [a[0] * b[0], a[0] * b[1], a[1] * b[0], a[1] * b[1]]
            return (min(c), max(c))
        if op in ("/", "//"):
            if b[0] <= 0 <= b[1]:
                return None
            c = [a[0] / b[0], a[0] / b[1], a[1] / b[0], a[1] / b[1]]
            lo, hi = min(c), max(c)
            if op == "//":
                return (Fraction(math.floor(lo)), Fraction(math.floor(hi)))
            return (lo, hi)
        if op == "%":
            if b[0] == b[1] and b[0] > 0 and a[0] >= 0:
                if a[1] < b[0]:
                    return a
                return (Fraction(0), b[0] - 1)
            return None
        if op == "&":
            if b[0] == b[1] and b[0] >= 0 and a[0] >= 0:
                return (Fraction(0), min(a[1], b[0]))
            if a[0] == a[1] and a[0] >= 0 and b[0] >= 0:
                return (Fraction(0), min(b[1], a[0]))
            return None
        if op == "|" or op == "^":
            if a[0] >= 0 and b[0] >= 0:
                bits = max(int(a[1]).bit_length(), int(b[1]).bit_length())
                return (Fraction(0), Fraction((1 << bits) - 1))
            return None
        if op == "<<":
            if b[0] == b[1] and b[0] >= 0 and a[0] >= 0:
                return (a[0] * 2 ** int(b[0]), a[1] * 2 ** int(b[0]))
            return None
        if op == ">>":
            if b[0] == b[1] and b[0] >= 0 and a[0] >= 0:
                return (Fraction(int(a[0]) >> int(b[0])), Fraction(int(a[1]) >> int(b[0])))
            return None
        return None
    if k == "un":
        a = iv_of(t[2], leaf)
        if a is None:
            return None
        if t[1] == "neg":
            return (-a[1], -a[0])
        if t[1] == "pos":
            return a
        return None
    if k == "ite":
        a, b = iv_of(t[2], leaf), iv_of(t[3], leaf)
        if a is None or b is None:
            return None
        return (min(a[0], b[0]), max(a[1], b[1]))
    if k == "call":
        if call_is(t, "int") and len(t[2]) == 1:
            a = iv_of(t[2][0], leaf)
            if a is None:
                return None
            return (Fraction(math.trunc(a[0])), Fraction(math.trunc(a[1])))
        if call_is(t, "len"):
            return None
        if call_is(t, "bool"):
            return (Fraction(0), Fraction(1))
    if k == "cmp" or k == "bool":
        return (Fraction(0), Fraction(1))
    return None


def ceval(t: Term, mods):
    """Congruence evaluation: `mods` maps symbol terms to (modulus, residue).  Returns an exact int / bool when the
    value is determined, ('mod', m, k) when only its residue is known, or None."""
    from .affine import lin
    t = strip(t)
    if is_const(t) and isinstance(t[1], (int, bool)):
        return t[1]
    if is_const(t) and t[1] is None:
        return None
    if t[0] == "enum":
        return t[3]
    if t in mods:
        return ("mod",) + tuple(mods[t])
    if t[0] == "bin":
        op = t[1]
        a, b = ceval(t[2], mods), ceval(t[3], mods)
        if isinstance(a, (int, bool)) and isinstance(b, (int, bool)):
            a, b = int(a), int(b)
            try:
                return {"+": a + b, "-": a - b, "*": a * b, "%": a % b if b else None, "//": a // b if b else None,
                        "<<": a << b if 0 <= b < 64 else None, ">>": a >> b if b >= 0 else None, "|": a | b, "&": a & b, "^": a ^ b}.get(op)
            except Exception:
                return None
        if op in ("+", "-") and a is not None and b is not None:
            am = a if isinstance(a, tuple) else ("mod", None, int(a))
            bm = b if isinstance(b, tuple) else ("mod", None, int(b))
            m = am[1] or bm[1]
            if am[1] and bm[1] and am[1] != bm[1]:
                return None
            k = am[2] + bm[2] if op == "+" else am[2] - bm[2]
            return ("mod", m, k % m)
        if op == "%" and isinstance(b, int) and isinstance(a, tuple) and a[1] and b > 0 and a[1] % b == 0:
            return a[2] % b
        # x & (2^k - 1) is x % 2^k; x >> k / x << k are // and * by 2^k
        if op == "&" and isinstance(b, int) and b > 0 and (b & (b + 1)) == 0 and isinstance(a, tuple) and a[1] and a[1] % (b + 1) == 0:
            return a[2] % (b + 1)
        if op == "&" and isinstance(a, int) and a > 0 and (a & (a + 1)) == 0 and isinstance(b, tuple) and b[1] and b[1] % (a + 1) == 0:
            return b[2] % (a + 1)
        if op == "<<" and isinstance(a, tuple) and isinstance(b, int) and a[1] and 0 <= b < 32:
            return ("mod", a[1], (a[2] << b) % a[1])
        if op == "*" and isinstance(a, tuple) and isinstance(b, int) and a[1]:
            return ("mod", a[1], (a[2] * b) % a[1])
        if op == "*" and isinstance(b, tuple) and isinstance(a, int) and b[1]:
            return ("mod", b[1], (b[2] * a) % b[1])
        return None
    if t[0] == "cmp":
        a, b = ceval(t[2], mods), ceval(t[3], mods)
        if isinstance(a, (int, bool)) and isinstance(b, (int, bool)):
            return {"==": a == b, "!=": a != b, "<": a < b, "<=": a <= b, ">": a > b, ">=": a >= b}.get(t[1])
        return None
    if t[0] == "ite":
        c = ceval(t[1], mods)
        if isinstance(c, (bool, int)):
            return ceval(t[2] if c else t[3], mods)
        a, b = ceval(t[2], mods), ceval(t[3], mods)
        return a if a == b else None
    if t[0] == "un" and t[1] == "neg":
        a = ceval(t[2], mods)
        if isinstance(a, tuple) and a[1]:
            return ("mod", a[1], (-a[2]) % a[1])
        return -a if isinstance(a, int) else None
    if t[0] == "un" and t[1] == "not":
        a = ceval(t[2], mods)
        return (not a) if isinstance(a, (int, bool)) else None
    if t[0] == "call" and call_is(t, "int") and len(t[2]) == 1:
        return ceval(t[2][0], mods)
    if t[0] == "sub":
        # TABLE[i] for a literal table and a determined index
        i = ceval(t[2], mods)
        base = strip(t[1])
        if isinstance(i, int) and not isinstance(i, bool) and base[0] == "sub":
            # TABLE[j][i] for a table of byte strings
            j = ceval(base[2], mods)
            tb = strip(base[1])
            if isinstance(j, int) and not isinstance(j, bool) and is_const(tb) and isinstance(tb[1], (tuple, list)) and -len(tb[1]) <= j < len(tb[1]) \
                    and isinstance(tb[1][j], (bytes, tuple, list)) and -len(tb[1][j]) <= i < len(tb[1][j]) and isinstance(tb[1][j][i], int):
                return tb[1][j][i]
        if isinstance(i, int) and not isinstance(i, bool):
            if is_const(base) and isinstance(base[1], (tuple, list, bytes)) and -len(base[1]) <= i < len(base[1]) and isinstance(base[1][i], int):
                return base[1][i]
            if base[0] in ("tuple", "list") and -len(base[1]) <= i < len(base[1]):
                return ceval(base[1][i], mods)
    return None
