"""Cross-module moves are undone before analysis (third pre-pass, after sa/names.py and sa/desugar.py).

A maintainer moves a helper into msmart/utils.py, a class into a new private module, and keeps the old name reachable:

    from msmart._security import Security                  # lan.py still offers msmart.lan.Security
    _timestamp = staticmethod(packet_timestamp)            # _Packet._timestamp is now msmart.utils.packet_timestamp

Every rule names its anchors by the place they had in the tree the rules were written against (sa/known_functions.txt).  Instead of teaching
each rule to follow imports, the move is reversed on the syntax trees: where module M imports a definition D from another module X of the
package, `M.D` is a known anchor (or the prefix of one) and `X.D` is not, a copy of D is placed in M in the import's stead; where a class
body binds a known method name to `staticmethod(F)` / `classmethod(F)` / `F` for a function F defined elsewhere in the package, a copy of F
becomes that method.  The names the copied body needs are imported into M the way X has them (the same import statement, or `from X import
n` for X's own definitions); if M already binds one of them to something else the move is left alone (the rules then answer with
ANALYSIS-ERROR as before - never with a finding).  The original definitions stay where they are.  The program analysed is the one the
interpreter would run, with one indirection of name lookup resolved statically.
"""
from __future__ import annotations

import ast
import copy
import os
from typing import Dict, List, Optional, Set, Tuple

PKG = "msmart"


def _known() -> Set[str]:
    path = os.path.join(os.path.dirname(os.path.abspath(__file__)), "known_functions.txt")
    with open(path) as fh:
        return {l.strip() for l in fh if l.strip()}


def _modname(rel: str) -> str:
    name = rel[:-3].replace(os.sep, ".")
    return name[: -len(".__init__")] if name.endswith(".__init__") else name


def _abs_module(mod_name: str, rel: str, node: ast.ImportFrom) -> str:
    mod = node.module or ""
    if node.level:
        parts = mod_name.split(".")
        base = parts if rel.endswith("__init__.py") else parts[:-1]
        base = base[: len(base) - (node.level - 1)] if node.level > 1 else base
        mod = ".".join(base + ([mod] if mod else []))
    return mod


def _top_bindings(tree: ast.Module) -> Dict[str, Tuple[str, object]]:
    """name -> ("import", (module, name|None)) | ("def", node) | ("assign", node) for top-level statements (also those under `if TYPE_CHECKING`-like
    blocks are ignored: only plain top-level statements count)"""
    out: Dict[str, Tuple[str, object]] = {}
    for st in tree.body:
        if isinstance(st, ast.Import):
            for a in st.names:
                out[a.asname or a.name.split(".")[0]] = ("import", (a.name, None, a.asname))
        elif isinstance(st, ast.ImportFrom):
            for a in st.names:
                out[a.asname or a.name] = ("from", (st.module, st.level, a.name, a.asname))
        elif isinstance(st, (ast.FunctionDef, ast.AsyncFunctionDef, ast.ClassDef)):
            out[st.name] = ("def", st)
        elif isinstance(st, ast.Assign):
            for t in st.targets:
                if isinstance(t, ast.Name):
                    out[t.id] = ("assign", st)
        elif isinstance(st, ast.AnnAssign) and isinstance(st.target, ast.Name):
            out[st.target.id] = ("assign", st)
    return out


def _free_names(node: ast.AST) -> Set[str]:
    names = set()
    for n in ast.walk(node):
        if isinstance(n, ast.Name) and isinstance(n.ctx, ast.Load):
            names.add(n.id)
    return names


def _import_stmt(kind, data) -> ast.stmt:
    if kind == "import":
        name, _none, asname = data
        return ast.Import(names=[ast.alias(name=name, asname=asname)])
    module, level, name, asname = data
    return ast.ImportFrom(module=module, names=[ast.alias(name=name, asname=asname)], level=level or 0)


def _needs(defn: ast.AST, xb, xmod: str, mb, mmod: str, rel_x: str) -> Optional[List[ast.stmt]]:
    """import statements M needs so that the copied definition's global names mean what they mean in X; None = conflict"""
    out = []
    for n in sorted(_free_names(defn)):
        if n not in xb:
            continue          # builtin / local / parameter
        kind, data = xb[n]
        if kind in ("def", "assign") and getattr(data, "name", None) == getattr(defn, "name", object()) and data is defn:
            continue
        if kind in ("import", "from"):
            want = (kind, data if kind == "import" else (_abs_from(xmod, rel_x, data), data[2]))
            if n in mb:
                k2, d2 = mb[n]
                have = (k2, d2 if k2 == "import" else ((_abs_from(mmod, "", d2), d2[2]) if k2 == "from" else None))
                if have == want:
                    continue
                return None
            if kind == "from":
                module, level, name, asname = data
                out.append(ast.ImportFrom(module=_abs_from(xmod, rel_x, data), names=[ast.alias(name=name, asname=asname)], level=0))
            else:
                out.append(_import_stmt(kind, data))
        else:
            # a definition / constant of X itself
            if n in mb:
                k2, d2 = mb[n]
                if k2 == "from" and _abs_from(mmod, "", d2) == xmod and d2[2] == n:
                    continue
                return None
            out.append(ast.ImportFrom(module=xmod, names=[ast.alias(name=n, asname=None)], level=0))
    return out


def _abs_from(mod_name: str, rel: str, data) -> str:
    module, level, _name, _asname = data
    if not level:
        return module or ""
    parts = mod_name.split(".")
    base = parts if rel.endswith("__init__.py") else parts[:-1]
    base = base[: len(base) - (level - 1)] if level > 1 else base
    return ".".join(base + ([module] if module else []))


def undo(trees: Dict[str, ast.Module]) -> List[str]:
    """trees: {relative path: module tree} (modified in place).  Returns a description of every move that was undone."""
    known = _known()
    mods = {_modname(rel): (rel, t) for rel, t in trees.items()}
    done: List[str] = []

    def is_anchor(q: str) -> bool:
        return q in known or any(k.startswith(q + ".") for k in known)

    for mname, (rel, tree) in sorted(mods.items()):
        base = os.path.basename(rel)
        if base.startswith("test_") or "/tests/" in "/" + rel or not mname.startswith(PKG):
            continue
        mb = _top_bindings(tree)
        # ---- A: imported definitions that used to live here
        new_body: List[ast.stmt] = []
        for st in tree.body:
            if not isinstance(st, ast.ImportFrom):
                new_body.append(st)
                continue
            xmod = _abs_module(mname, rel, st)
            if xmod not in mods or xmod == mname or not xmod.startswith(PKG):
                new_body.append(st)
                continue
            rel_x, xtree = mods[xmod]
            xb = _top_bindings(xtree)
            keep, moved = [], []
            for a in st.names:
                local = a.asname or a.name
                b = xb.get(a.name)
                if b is None or b[0] != "def" or not is_anchor(f"{mname}.{local}") or is_anchor(f"{xmod}.{a.name}"):
                    keep.append(a)
                    continue
                defn = copy.deepcopy(b[1])
                defn.name = local
                mb_wo = {k: v for k, v in mb.items() if k != local}
                need = _needs(b[1], xb, xmod, mb_wo, mname, rel_x)
                if need is None:
                    keep.append(a)
                    continue
                moved.append((defn, need))
                done.append(f"{xmod}.{a.name} -> {mname}.{local}")
            if keep:
                new_body.append(ast.ImportFrom(module=st.module, names=keep, level=st.level))
            for defn, need in moved:
                for imp in need:
                    new_body.append(imp)
                    for al in imp.names:
                        mb[al.asname or al.name.split(".")[0]] = ("from", (imp.module, 0, al.name, al.asname)) if isinstance(imp, ast.ImportFrom) else ("import", (al.name, None, al.asname))
                new_body.append(defn)
                mb[defn.name] = ("def", defn)
        tree.body = new_body
        # ---- B: method names bound to functions defined elsewhere
        for cls in [n for n in ast.walk(tree) if isinstance(n, ast.ClassDef)]:
            for i, st in enumerate(list(cls.body)):
                if not (isinstance(st, ast.Assign) and len(st.targets) == 1 and isinstance(st.targets[0], ast.Name)):
                    continue
                name = st.targets[0].id
                v, deco = st.value, None
                if isinstance(v, ast.Call) and isinstance(v.func, ast.Name) and v.func.id in ("staticmethod", "classmethod") and len(v.args) == 1 and not v.keywords:
                    deco, v = v.func.id, v.args[0]
                src_def, xmod, xb, rel_x = None, mname, mb, rel
                if isinstance(v, ast.Attribute) and isinstance(v.value, ast.Name) and v.value.id in mb and mb[v.value.id][0] in ("import", "from"):
                    # <module alias>.<function>: `import msmart._crypto as _crypto` / `from msmart import _crypto`
                    k0, d0 = mb[v.value.id]
                    xm = d0[0] if k0 == "import" else ((_abs_from(mname, rel, d0) + "." + d0[2]) if _abs_from(mname, rel, d0) else d0[2])
                    if xm in mods and xm.startswith(PKG):
                        rel_x, xtree = mods[xm]
                        xb = _top_bindings(xtree)
                        b = xb.get(v.attr)
                        if b is not None and b[0] == "def" and isinstance(b[1], (ast.FunctionDef, ast.AsyncFunctionDef)):
                            src_def, xmod = b[1], xm
                    if src_def is None:
                        continue
                    kind, data = "module-attr", None
                elif not isinstance(v, ast.Name) or v.id not in mb:
                    continue
                else:
                    kind, data = mb[v.id]
                if kind == "def" and isinstance(data, (ast.FunctionDef, ast.AsyncFunctionDef)):
                    src_def = data
                elif kind == "from":
                    xm = _abs_from(mname, rel, data)
                    if xm in mods and xm.startswith(PKG):
                        rel_x, xtree = mods[xm]
                        xb = _top_bindings(xtree)
                        b = xb.get(data[2])
                        if b is not None and b[0] == "def" and isinstance(b[1], (ast.FunctionDef, ast.AsyncFunctionDef)):
                            src_def, xmod = b[1], xm
                if src_def is None:
                    continue
                need = _needs(src_def, xb, xmod, mb, mname, rel_x) if xmod != mname else []
                if need is None:
                    continue
                defn = copy.deepcopy(src_def)
                defn.name = name
                defn.decorator_list = ([ast.Name(id=deco, ctx=ast.Load())] if deco else []) + [d for d in defn.decorator_list]
                ast.copy_location(defn, st)
                cls.body[cls.body.index(st)] = defn
                for imp in need:
                    tree.body.insert(0, imp)
                    for al in imp.names:
                        mb[al.asname or al.name.split(".")[0]] = ("from", (imp.module, 0, al.name, al.asname)) if isinstance(imp, ast.ImportFrom) else ("import", (al.name, None, al.asname))
                done.append(f"{xmod}.{src_def.name} -> {mname}.{cls.name}.{name}" + (f" ({deco})" if deco else ""))
        ast.fix_missing_locations(tree)
    return done


# ---------------------------------------------------------------------------------------------------------------------------------------
# calling conventions: a known function whose parameters were only reordered or made keyword-only (`f(packet_id, data)` -> `f(data, *,
# packet_id)`) gets its reference parameter list back, and the calls that can be resolved to it are rewritten to positional arguments in
# that order.  Same function, same values bound to the same names; the rules keep addressing parameters by their reference position.

def _sig_path() -> str:
    return os.path.join(os.path.dirname(os.path.abspath(__file__)), "reference_signatures.json")


def freeze_signatures(root: str = "/repo") -> int:
    import json
    known = _known()
    out = {}
    for d, _dirs, fs in os.walk(os.path.join(root, PKG)):
        for f in fs:
            if not f.endswith(".py") or f.startswith("test_") or "/tests" in d:
                continue
            rel = os.path.relpath(os.path.join(d, f), root)
            mname = _modname(rel)
            tree = ast.parse(open(os.path.join(d, f), encoding="utf-8").read())

            def visit(body, prefix):
                for st in body:
                    if isinstance(st, (ast.FunctionDef, ast.AsyncFunctionDef)):
                        q = f"{prefix}.{st.name}"
                        if q in known and not any(isinstance(x, ast.Name) and x.id == "property" or isinstance(x, ast.Attribute) and x.attr == "setter" for x in st.decorator_list):
                            a = st.args
                            if not a.vararg and not a.kwarg:
                                out[q] = {"pos": [x.arg for x in a.posonlyargs + a.args], "kwonly": [x.arg for x in a.kwonlyargs]}
                            if q in known:
                                skip_ = {id(x) for f_ in ast.walk(st) if isinstance(f_, (ast.FunctionDef, ast.AsyncFunctionDef, ast.Lambda)) and f_ is not st for x in ast.walk(f_)}
                                out.setdefault(q, {})["returns_value"] = any(
                                    isinstance(r, ast.Return) and id(r) not in skip_ and r.value is not None and not (isinstance(r.value, ast.Constant) and r.value.value is None)
                                    for r in ast.walk(st))
                    elif isinstance(st, ast.ClassDef):
                        visit(st.body, f"{prefix}.{st.name}")
            visit(tree.body, mname)
    with open(_sig_path(), "w") as fh:
        json.dump(out, fh, indent=0, sort_keys=True)
    return len(out)


def undo_signatures(trees: Dict[str, ast.Module]) -> List[str]:
    import json
    if not os.path.exists(_sig_path()):
        return []
    ref = json.load(open(_sig_path()))
    done: List[str] = []
    changed = {}          # qual -> (def node, class name | None, current binding order info)
    for rel, tree in trees.items():
        base = os.path.basename(rel)
        if base.startswith("test_") or "/tests/" in "/" + rel:
            continue
        mname = _modname(rel)

        def visit(body, prefix, cls):
            for st in body:
                if isinstance(st, ast.ClassDef):
                    visit(st.body, f"{prefix}.{st.name}", st)
                elif isinstance(st, (ast.FunctionDef, ast.AsyncFunctionDef)):
                    q = f"{prefix}.{st.name}"
                    a = st.args
                    cur = [x.arg for x in a.posonlyargs + a.args + a.kwonlyargs]
                    wref = ref.get(q)
                    if wref is None or "pos" not in wref or a.vararg or a.kwarg:
                        continue
                    want, want_kw = wref["pos"], wref["kwonly"]
                    if (cur[:len(cur) - len(a.kwonlyargs)] == want and [x.arg for x in a.kwonlyargs] == want_kw) or sorted(cur) != sorted(want + want_kw):
                        continue
                    # defaults by name
                    pos = a.posonlyargs + a.args
                    dflt = {p.arg: d for p, d in zip(pos[len(pos) - len(a.defaults):], a.defaults)}
                    dflt.update({p.arg: d for p, d in zip(a.kwonlyargs, a.kw_defaults) if d is not None})
                    seen_default = False
                    ok = True
                    for n in want:
                        if n in dflt:
                            seen_default = True
                        elif seen_default:
                            ok = False
                    if not ok:
                        continue
                    byname = {x.arg: x for x in pos + a.kwonlyargs}
                    old_pos = [x.arg for x in pos]
                    old_kwonly = [x.arg for x in a.kwonlyargs]
                    st.args = ast.arguments(posonlyargs=[], args=[byname[n] for n in want], vararg=None, kwonlyargs=[byname[n] for n in want_kw],
                                            kw_defaults=[dflt.get(n) for n in want_kw], kwarg=None, defaults=[dflt[n] for n in want if n in dflt])
                    changed[q] = (st, cls, old_pos, old_kwonly, want)
                    done.append(f"{q}({', '.join(cur)}) -> ({', '.join(want + (['*'] + want_kw if want_kw else []))})")
        visit(tree.body, mname, None)
    if not changed:
        return done
    by_name: Dict[str, List[str]] = {}
    for q in changed:
        by_name.setdefault(q.rsplit(".", 1)[-1], []).append(q)
    # rewrite resolvable calls
    for rel, tree in trees.items():
        for call in [n for n in ast.walk(tree) if isinstance(n, ast.Call)]:
            f = call.func
            nm = f.attr if isinstance(f, ast.Attribute) else (f.id if isinstance(f, ast.Name) else None)
            if nm not in by_name or len(by_name[nm]) != 1:
                continue
            q = by_name[nm][0]
            st, cls, old_pos, old_kwonly, want = changed[q]
            is_method = cls is not None and not any(isinstance(d, ast.Name) and d.id == "staticmethod" for d in st.decorator_list)
            if isinstance(f, ast.Attribute):
                b = f.value
                recv_ok = (isinstance(b, ast.Name) and (b.id in ("self", "cls") or (cls is not None and b.id == cls.name))) or \
                    (isinstance(b, ast.Call) and isinstance(b.func, ast.Name) and b.func.id == "super") or \
                    (isinstance(b, ast.Attribute) and cls is not None and b.attr == cls.name)
                if cls is None or not recv_ok:
                    # an unrelated method of the same name cannot take these keywords: accept when every keyword is one of the parameters
                    if not call.keywords or not all(k.arg in old_pos + old_kwonly for k in call.keywords):
                        continue
                bound_recv = is_method          # obj.m(...) / cls.m(...): receiver supplied implicitly
            else:
                if cls is not None:
                    continue
                bound_recv = False
            if any(isinstance(x, ast.Starred) for x in call.args) or any(k.arg is None for k in call.keywords):
                continue
            names_pos = old_pos[1:] if bound_recv else old_pos
            if len(call.args) > len(names_pos):
                continue
            bind = {n: v for n, v in zip(names_pos, call.args)}
            for k in call.keywords:
                bind[k.arg] = k.value
            order = want[1:] if bound_recv else want
            new_args = []
            stop = False
            for n in order:
                if n in bind and not stop:
                    new_args.append(bind.pop(n))
                else:
                    stop = True
            call.args = new_args
            call.keywords = [ast.keyword(arg=n, value=v) for n, v in bind.items()]
    for tree in trees.values():
        ast.fix_missing_locations(tree)
    return done


if __name__ == "__main__":
    import sys
    if sys.argv[1:2] == ["freeze"]:
        print(freeze_signatures(sys.argv[2] if len(sys.argv) > 2 else "/repo"), "signatures frozen")


# ---------------------------------------------------------------------------------------------------------------------------------------
# helpers extracted into another module and called in statement or tail position (`queue_flush(self._queue)`, `return await
# queue_get(self._queue, timeout)`) are put back in line: parameters replaced by the (side-effect free) argument expressions, the helper's
# locals renamed apart.  The value-flow engine sees through such helpers anyway; the rules that look at the shape of a function body
# (what drains the queue, what the callback does to its buffer) and the raise analysis' model of `self._queue` then see the statements
# where the reference tree has them.

def undo_extractions(trees: Dict[str, ast.Module]) -> List[str]:
    known = _known()
    mods = {_modname(rel): (rel, t) for rel, t in trees.items()}
    done: List[str] = []
    counter = [0]

    def is_anchor(q: str) -> bool:
        return q in known or any(k.startswith(q + ".") for k in known)

    def simple(e):
        if isinstance(e, (ast.Name, ast.Constant)):
            return True
        return isinstance(e, ast.Attribute) and simple(e.value)

    class Subst(ast.NodeTransformer):
        def __init__(self, bind, ren):
            self.bind, self.ren = bind, ren

        def visit_Name(self, n):
            if n.id in self.bind and isinstance(n.ctx, ast.Load):
                return ast.copy_location(copy.deepcopy(self.bind[n.id]), n)
            if n.id in self.ren:
                return ast.copy_location(ast.Name(id=self.ren[n.id], ctx=n.ctx), n)
            return n

    for mname, (rel, tree) in sorted(mods.items()):
        base = os.path.basename(rel)
        if base.startswith("test_") or "/tests/" in "/" + rel or not mname.startswith(PKG):
            continue
        mb = _top_bindings(tree)

        def helper_of(call):
            if not isinstance(call.func, ast.Name) or call.func.id not in mb:
                return None
            kind, data = mb[call.func.id]
            if kind != "from":
                return None
            xm = _abs_from(mname, rel, data)
            if xm not in mods or xm == mname or not xm.startswith(PKG) or is_anchor(f"{xm}.{data[2]}"):
                return None
            rel_x, xtree = mods[xm]
            xb = _top_bindings(xtree)
            b = xb.get(data[2])
            if b is None or b[0] != "def" or not isinstance(b[1], (ast.FunctionDef, ast.AsyncFunctionDef)):
                return None
            return b[1], xm, xb, rel_x

        def try_inline(st):
            """replacement statements for st, or None"""
            v = st.value if isinstance(st, (ast.Expr, ast.Return)) else None
            awaited = isinstance(v, ast.Await)
            call = v.value if awaited else v
            if not isinstance(call, ast.Call):
                return None
            h = helper_of(call)
            if h is None:
                return None
            f, xm, xb, rel_x = h
            if isinstance(f, ast.AsyncFunctionDef) != awaited or f.decorator_list:
                return None
            a = f.args
            if a.vararg or a.kwarg or a.posonlyargs or a.kwonlyargs:
                return None
            inner = [n for b_ in f.body for n in ast.walk(b_)]
            if any(isinstance(n, (ast.FunctionDef, ast.AsyncFunctionDef, ast.Lambda, ast.Yield, ast.YieldFrom, ast.Global, ast.Nonlocal, ast.ClassDef)) for n in inner):
                return None
            rets = [n for n in inner if isinstance(n, ast.Return)]
            if isinstance(st, ast.Expr) and rets:
                return None
            if any(isinstance(x, ast.Starred) for x in call.args) or any(k.arg is None for k in call.keywords) or not all(simple(x) for x in list(call.args) + [k.value for k in call.keywords]):
                return None
            names = [x.arg for x in a.args]
            if len(call.args) > len(names):
                return None
            bind = dict(zip(names, call.args))
            for k in call.keywords:
                if k.arg not in names or k.arg in bind:
                    return None
                bind[k.arg] = k.value
            for p, d in zip(names[len(names) - len(a.defaults):], a.defaults):
                bind.setdefault(p, d)
            if set(bind) != set(names):
                return None
            stores = {n.id for n in inner if isinstance(n, ast.Name) and isinstance(n.ctx, (ast.Store, ast.Del))} | \
                {n.name for n in inner if isinstance(n, ast.ExceptHandler) and n.name}
            if stores & set(names):
                return None          # (a parameter re-bound in the helper: not a plain substitution)
            need = _needs(f, xb, xm, mb, mname, rel_x)
            if need is None:
                return None
            counter[0] += 1
            ren = {n: f"_inl{counter[0]}_{n}" for n in stores}
            body = [b_ for b_ in copy.deepcopy(f.body) if not (isinstance(b_, ast.Expr) and isinstance(b_.value, ast.Constant) and isinstance(b_.value.value, str))]
            body = [Subst(bind, ren).visit(b_) for b_ in body]
            for b_ in body:
                for n in ast.walk(b_):
                    if isinstance(n, ast.ExceptHandler) and n.name in ren:
                        n.name = ren[n.name]
                    ast.copy_location(n, st) if not hasattr(n, "lineno") else None
            if isinstance(st, ast.Return) and not (body and isinstance(body[-1], (ast.Return, ast.Raise))):
                body.append(ast.copy_location(ast.Return(value=None), st))
            for imp in need:
                tree.body.insert(0, imp)
                for al in imp.names:
                    mb[al.asname or al.name.split(".")[0]] = ("from", (imp.module, 0, al.name, al.asname)) if isinstance(imp, ast.ImportFrom) else ("import", (al.name, None, al.asname))
            done.append(f"{xm}.{f.name} inlined into {mname} (line {getattr(st, 'lineno', '?')})")
            return body or [ast.copy_location(ast.Pass(), st)]

        def rewrite(stmts):
            out = []
            for st in stmts:
                for fld in ("body", "orelse", "finalbody"):
                    if isinstance(getattr(st, fld, None), list) and getattr(st, fld) and isinstance(getattr(st, fld)[0], ast.stmt):
                        setattr(st, fld, rewrite(getattr(st, fld)))
                for h in getattr(st, "handlers", []) or []:
                    h.body = rewrite(h.body)
                rep = try_inline(st) if isinstance(st, (ast.Expr, ast.Return)) else None
                out.extend(rep if rep is not None else [st])
            return out
        for n in ast.walk(tree):
            if isinstance(n, (ast.FunctionDef, ast.AsyncFunctionDef)):
                n.body = rewrite(n.body)
        ast.fix_missing_locations(tree)
    return done


# ---------------------------------------------------------------------------------------------------------------------------------------
# "the caller owns the result": a known method that used to store what it built in an attribute of its object now returns it, and every
# caller writes `self.A = [await] self.m(..)`.  Same stores, one frame higher - put back: `return e` in m becomes `self.A = e; return`, the
# call sites become plain calls.  Only when *every* call of m in the package has that form with the same attribute.

def undo_result_ownership(trees: Dict[str, ast.Module]) -> List[str]:
    import json
    known = _known()
    done: List[str] = []
    ref = json.load(open(_sig_path())) if os.path.exists(_sig_path()) else {}
    # call sites by method name, once: (rel, call, parent map, enclosing class node or None, in a test module)
    calls: Dict[str, list] = {}
    for rel2, tree2 in trees.items():
        is_test = os.path.basename(rel2).startswith("test_") or "/tests/" in "/" + rel2
        par, owner = {}, {}
        stack = [(tree2, None)]
        while stack:
            node, cls_ = stack.pop()
            for ch in ast.iter_child_nodes(node):
                par[ch] = node
                owner[ch] = cls_
                stack.append((ch, ch if isinstance(ch, ast.ClassDef) else cls_))
        for c in list(par):
            if isinstance(c, ast.Call) and isinstance(c.func, ast.Attribute):
                calls.setdefault(c.func.attr, []).append((rel2, c, par, owner.get(c), is_test))
    for rel, tree in sorted(trees.items()):
        base = os.path.basename(rel)
        if base.startswith("test_") or "/tests/" in "/" + rel:
            continue
        mname = _modname(rel)
        for cls in [n for n in tree.body if isinstance(n, ast.ClassDef)]:
            for m in [x for x in cls.body if isinstance(x, (ast.FunctionDef, ast.AsyncFunctionDef))]:
                name = m.name
                q = f"{mname}.{cls.name}.{name}"
                if q not in known or not m.args.args or name not in calls or ref.get(q, {}).get("returns_value", True):
                    continue          # (only a method that had no result in the reference tree)
                inner_fns = [n for n in ast.walk(m) if isinstance(n, (ast.FunctionDef, ast.AsyncFunctionDef, ast.Lambda)) and n is not m]
                skip = {id(x) for f_ in inner_fns for x in ast.walk(f_)}
                rets = [n for n in ast.walk(m) if isinstance(n, ast.Return) and id(n) not in skip]
                if not rets or any(r.value is None or (isinstance(r.value, ast.Constant) and r.value.value is None) for r in rets):
                    continue
                if any(isinstance(n, (ast.Yield, ast.YieldFrom)) for n in ast.walk(m)):
                    continue
                sites, other = [], 0
                for rel2, c, par, cls_, is_test in calls[name]:
                    recv_self = isinstance(c.func.value, ast.Name) and c.func.value.id == "self"
                    if not (rel2 == rel and cls_ is cls and recv_self):
                        other += 0 if is_test else 1
                        continue
                    p = par.get(c)
                    if isinstance(p, ast.Await):
                        p = par.get(p)
                    if isinstance(p, ast.Assign) and len(p.targets) == 1 and isinstance(p.targets[0], ast.Attribute) and isinstance(p.targets[0].value, ast.Name) \
                            and p.targets[0].value.id == "self" and (p.value is c or (isinstance(p.value, ast.Await) and p.value.value is c)):
                        sites.append((p, p.targets[0].attr, par))
                    else:
                        other += 1
                attrs = {a_ for _p, a_, _par in sites}
                if other or not sites or len(attrs) != 1:
                    continue
                attr = attrs.pop()
                selfn = m.args.args[0].arg

                def fix(stmts):
                    out = []
                    for st in stmts:
                        if isinstance(st, ast.Return) and any(st is r for r in rets):
                            asg = ast.Assign(targets=[ast.Attribute(value=ast.Name(id=selfn, ctx=ast.Load()), attr=attr, ctx=ast.Store())], value=st.value)
                            out += [ast.copy_location(asg, st), ast.copy_location(ast.Return(value=None), st)]
                            continue
                        if not isinstance(st, (ast.FunctionDef, ast.AsyncFunctionDef, ast.ClassDef)):
                            for fld in ("body", "orelse", "finalbody"):
                                lst = getattr(st, fld, None)
                                if isinstance(lst, list) and lst and isinstance(lst[0], ast.stmt):
                                    setattr(st, fld, fix(lst))
                            for h in getattr(st, "handlers", []) or []:
                                h.body = fix(h.body)
                        out.append(st)
                    return out
                m.body = fix(m.body)
                m.returns = None
                for p, _a, par in sites:
                    p_new = ast.copy_location(ast.Expr(value=p.value), p)
                    holder = par.get(p)
                    for fld in ("body", "orelse", "finalbody"):
                        lst = getattr(holder, fld, None)
                        if isinstance(lst, list) and any(x is p for x in lst):
                            lst[[i for i, x in enumerate(lst) if x is p][0]] = p_new
                done.append(f"{q} stores self.{attr} itself again ({len(sites)} call sites assigned its result)")
        ast.fix_missing_locations(tree)
    return done
