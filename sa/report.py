"""Verdicts, findings, evidence files, known-findings handling."""
from __future__ import annotations

import ast
import json
import os
import time
from typing import Any, Dict, List, Optional

from .model import AnalysisError, Program, norm

VERIF = os.path.dirname(os.path.dirname(os.path.abspath(__file__)))
EVIDENCE_DIR = os.path.join(VERIF, "evidence")
REPLAY_DIR = os.path.join(EVIDENCE_DIR, "replay")
KNOWN_FILE = os.path.join(VERIF, "known_findings.json")


class Finding:
    def __init__(self, prop: str, rule: str, file: str, func: str, construct: str, what: str, detail: Any = None,
                 line: Optional[int] = None):
        self.prop, self.rule, self.file, self.func = prop, rule, file, func
        self.construct, self.what, self.detail, self.line = construct, what, detail, line

    @property
    def key(self) -> str:
        # rule + qualified construct + normalised statement text; never a line number
        return f"{self.rule}|{self.func}|{self.construct}"

    def to_json(self) -> dict:
        return {"property": self.prop, "rule": self.rule, "file": self.file, "function": self.func,
                "construct": self.construct, "line_hint": self.line, "what": self.what, "detail": self.detail,
                "key": self.key}


class Ctx:
    """Per-run context handed to a property's rule module."""

    def __init__(self, prop: str, prog: Program, tier: str = "quick", seed: int = 0, write: bool = True, t0=None):
        self.prop, self.prog, self.tier, self.seed, self.write = prop, prog, tier, seed, write
        self.t0 = t0 or time.time()
        self.obligations: List[dict] = []
        self.findings: List[Finding] = []
        self.samples: List[Any] = []
        self.counts: Dict[str, int] = {}
        self.minima: Dict[str, int] = {}
        self.deferred_errors: List[str] = []
        self.assumptions: List[str] = []
        self.analysed: Dict[str, Any] = {"functions": [], "modules": sorted(m.rel for m in prog.modules.values() if not m.is_test)}
        self.extra: Dict[str, Any] = {}
        self.explanation = ""
        self.trusted: List[str] = []

    # -- bookkeeping ------------------------------------------------------------------
    def fn(self, qual: str):
        """Fetch an anchored function; vanished anchor = analysis error (never a silent pass)."""
        f = self.prog.func(qual)
        if qual not in self.analysed["functions"]:
            self.analysed["functions"].append(qual)
        return f

    def setter(self, qual: str):
        f = self.prog.setter(qual)
        q = qual + "[setter]"
        if q not in self.analysed["functions"]:
            self.analysed["functions"].append(q)
        return f

    def count(self, name: str, n: int = 1):
        self.counts[name] = self.counts.get(name, 0) + n

    def require_min(self, name: str, minimum: int):
        """Instance count below the hand-confirmed minimum => fail closed (exit 2)."""
        self.minima[name] = minimum

    def assume(self, text: str):
        if text not in self.assumptions:
            self.assumptions.append(text)

    def sample(self, s: Any):
        if len(self.samples) < 40:
            self.samples.append(s)

    # -- obligations ------------------------------------------------------------------
    def ob(self, rule: str, site: str, ok: bool, what: str, *, func: str = "", file: str = "", construct: str = "",
           node: Optional[ast.AST] = None, detail: Any = None, fail: Optional[str] = None) -> bool:
        """Record one decided obligation.  `what` says what was shown; `fail` what is wrong if not ok."""
        self.obligations.append({"rule": rule, "site": site, "verdict": "holds" if ok else "VIOLATED", "what": what})
        if not ok:
            if node is not None and not construct:
                construct = norm(node)
            self.findings.append(Finding(self.prop, rule, file, func or site, construct or site, fail or f"NOT: {what}", detail,
                                         getattr(node, "lineno", None)))
        return ok

    def violation(self, rule: str, func: str, what: str, *, file: str = "", construct: str = "", node=None, detail=None):
        return self.ob(rule, func, False, what, func=func, file=file, construct=construct, node=node, detail=detail, fail=what)

    # -- output -----------------------------------------------------------------------
    _import_stack: list = []

    def import_rules(self, mod, label: str, only=None):
        """Re-run another property's obligations inside this check, as premises of this property: their findings are reported under this
        property with the rule id `<this>.<label>/<theirs>` (nothing is assumed from the other check's last run)."""
        own = f"sa.rules.{self.prop.lower()}"
        if mod.__name__ in Ctx._import_stack or mod.__name__ == own or len(Ctx._import_stack) >= 2:
            return          # (premises import each other: each module runs at most once on a chain, two levels deep)
        sub = Ctx(self.prop, self.prog, tier=self.tier, seed=self.seed, write=False)
        Ctx._import_stack.append(mod.__name__)
        try:
            mod.run(sub)
            sub.check_minima()
        except AnalysisError as e:
            # the premise could not be decided: that only matters if this check would otherwise pass (a finding stands on its own)
            self.deferred_errors.append(f"premise {label} ({mod.__name__.split('.')[-1].upper()}): {e}")
        finally:
            Ctx._import_stack.pop()
        keep = (lambda r: True) if only is None else (lambda r: any(r == x or r.startswith(x + "/") or r.endswith("/" + x) for x in only))
        for o in sub.obligations:
            if not keep(o["rule"]):
                continue
            o2 = dict(o)
            o2["rule"] = f"{self.prop}.{label}/" + o2["rule"]
            self.obligations.append(o2)
        for f in sub.findings:
            if not keep(f.rule):
                continue
            f.rule = f"{self.prop}.{label}/" + f.rule
            self.findings.append(f)
        for q in sub.analysed["functions"]:
            if q not in self.analysed["functions"]:
                self.analysed["functions"].append(q)
        self.count(f"imported_{label}", len(sub.obligations))

    def check_minima(self):
        """Evaluated at the end: with no finding, a rule that matched fewer sites than confirmed is exit 2."""
        if self.findings:
            return
        if self.deferred_errors:
            raise AnalysisError(self.deferred_errors[0])
        for name, minimum in self.minima.items():
            got = self.counts.get(name, 0)
            if got < minimum:
                raise AnalysisError(f"rule instance count '{name}' = {got} below the confirmed minimum {minimum}: "
                                    f"the rule no longer matches the code it guards")

    def finish(self) -> int:
        self.check_minima()
        known = load_known()
        kn = {k["key"]: k for k in known.get("known", []) if k.get("property") == self.prop}
        new, listed = [], []
        seen = set()
        for f in self.findings:
            if f.key in seen:
                continue
            seen.add(f.key)
            (listed if f.key in kn else new).append(f)
        wall = round(time.time() - self.t0, 3)
        n_ob = len(self.obligations)
        n_ok = sum(1 for o in self.obligations if o["verdict"] == "holds")
        distinct = len({(o["rule"], o["site"], o["what"]) for o in self.obligations})
        replay_paths = []
        if self.write:
            os.makedirs(REPLAY_DIR, exist_ok=True)
            for old in os.listdir(REPLAY_DIR):
                if old.startswith(self.prop + "-"):
                    os.unlink(os.path.join(REPLAY_DIR, old))
            for i, f in enumerate(new):
                p = os.path.join(REPLAY_DIR, f"{self.prop}-{i}.json")
                with open(p, "w") as fh:
                    json.dump(f.to_json(), fh, indent=1, default=str)
                replay_paths.append(p)
            ev = {
                "property_id": self.prop,
                "tier": self.tier,
                "seed": int(self.seed),
                "level": "other",
                "coverage": {
                    "explanation": self.explanation or "static analysis of /repo's syntax trees (no execution)",
                    "obligations": n_ob,
                    "discharged": n_ok,
                    "evaluations": max(n_ob, 1),
                    "distinct_nontrivial": max(distinct, 0),
                    "rule": "one evaluation = one statically decided obligation (rule instance at a resolved site); "
                            "distinct = distinct (rule, site, statement) triples",
                    "samples": self.samples[:40] or [o for o in self.obligations[:10]],
                    "checker_cmd": f"./check {self.prop} --tier {self.tier}",
                    "trusted_base": self.trusted,
                    "exhaustive": False,
                    "rule_instances": self.counts,
                    "rule_instance_minima": self.minima,
                    "analysed": self.analysed,
                    "obligation_list": self.obligations,
                    "source_digest": self.prog.digest(),
                    "renamed_private_names": getattr(self.prog, "renamed", {}),
                    "findings_new": [f.to_json() for f in new],
                    "findings_known": [f.to_json() for f in listed],
                    **self.extra,
                },
                "assumptions": self.assumptions,
                "wall_s": wall,
                "violations": len(new),
            }
            os.makedirs(EVIDENCE_DIR, exist_ok=True)
            with open(os.path.join(EVIDENCE_DIR, f"{self.prop}.json"), "w") as fh:
                json.dump(ev, fh, indent=1, default=str)
        _print(f"[{self.prop}] tier={self.tier} obligations={n_ob} discharged={n_ok} "
              f"functions={len(self.analysed['functions'])} wall={wall}s")
        if getattr(self.prog, "renamed", None):
            _print("  private names read as their reference names (consistent rename, sa/names.py): "
                   + ", ".join(f"{k} -> {v}" for k, v in sorted(self.prog.renamed.items())))
        for name, n in sorted(self.counts.items()):
            mn = self.minima.get(name)
            _print(f"  instances {name}: {n}" + (f" (min {mn})" if mn is not None else ""))
        for f in listed:
            _print(f"KNOWN-FINDING: property={self.prop} {f.rule} {f.func}: {f.construct} -- {kn[f.key].get('what', f.what)}")
        for i, f in enumerate(new):
            _print(f"  {f.rule} {f.file}:{f.line or '?'} {f.func}: `{f.construct}` -- {f.what}")
            rp = replay_paths[i] if self.write else "-"
            _print(f"VIOLATION property={self.prop} replay={rp}")
        return 1 if new else 0


def _print(*a):
    try:
        import builtins
        builtins.print(*a, flush=True)
    except BrokenPipeError:
        pass


def load_known() -> dict:
    if not os.path.exists(KNOWN_FILE):
        return {"known": [], "fixed": []}
    with open(KNOWN_FILE) as fh:
        return json.load(fh)
