from ..selftest import M

L = "msmart/lan.py"
CORPUS = [
    M("id-big-endian", L, 'header += device_id.to_bytes(8, "little")  # Device ID', 'header += device_id.to_bytes(8, "big")  # Device ID'),
    M("id-6-bytes", L, 'header += device_id.to_bytes(8, "little")  # Device ID\n        header += bytes(12)  # ???',
      'header += device_id.to_bytes(6, "little")  # Device ID\n        header += bytes(14)  # ???'),
    M("msg-type-changed", L, 'header += b"\\x01\\x11"  # Message type', 'header += b"\\x01\\x12"  # Message type'),
    M("magic-changed", L, 'header += b"\\x20\\x00"  # Magic bytes', 'header += b"\\x20\\x80"  # Magic bytes'),
    M("marker-changed", L, 'header = b"\\x5A\\x5A"  # Start of packet', 'header = b"\\x5A\\x5B"  # Start of packet'),
    M("length-from-plaintext", L, "length = 40 + len(encrypted_payload) + 16", "length = 40 + len(command) + 16"),
    M("length-off-by-one", L, "length = 40 + len(encrypted_payload) + 16", "length = 40 + len(encrypted_payload) + 15"),
    M("length-big-endian", L, 'header += length.to_bytes(2, "little")  # Packet size', 'header += length.to_bytes(2, "big")  # Packet size'),
    M("header-41", L, "header += bytes(12)  # ???", "header += bytes(13)  # ???"),
    M("block-32-both", L, "return Padding.unpad(cipher.decrypt(data), 16)", "return Padding.unpad(cipher.decrypt(data), 32)",
      also=[(L, "return cipher.encrypt(Padding.pad(data, 16))", "return cipher.encrypt(Padding.pad(data, 32))")]),
    M("block-asymmetric", L, "return Padding.unpad(cipher.decrypt(data), 16)", "return Padding.unpad(cipher.decrypt(data), 32)"),
    M("mode-asymmetric", L, """        cipher = AES.new(Security.ENC_KEY, AES.MODE_ECB)

        # Decrypt and remove padding""", """        cipher = AES.new(Security.ENC_KEY, AES.MODE_CBC, iv=bytes(16))

        # Decrypt and remove padding"""),
    M("sign-key-changed", L, 'SIGN_KEY = "xhdiwjnchekd4d512chdjx5d8e4c394D2D7S".encode()', 'SIGN_KEY = "xhdiwjnchekd4d512chdjx5d8e4c394D2D7s".encode()'),
    M("enc-key-sha", L, "ENC_KEY = md5(SIGN_KEY).digest()", "ENC_KEY = sha256(SIGN_KEY).digest()[:16]"),
    M("sign-prefix-key", L, "return md5(data + Security.SIGN_KEY).digest()", "return md5(Security.SIGN_KEY + data).digest()"),
    M("sign-excludes-header", L, "return packet + Security.sign(packet)", "return packet + Security.sign(encrypted_payload)"),
    M("timestamp-overflow", L, "                           int(now.microsecond / 10000),", "                           int(now.microsecond / 1000),"),
    M("timestamp-year", L, "                           now.year % 100,\n                           int(now.year / 100)", "                           now.year % 100,\n                           now.year - 1800"),
    M("timestamp-7-bytes", L, """        return struct.pack("BBBBBBBB",
                           int(now.microsecond / 10000),""", """        return struct.pack("BBBBBBB","""),
    M("decoder-offset-drift", L, "            encrypted_frame = packet[40:-16]", "            encrypted_frame = packet[38:-16]"),
    M("decoder-length-be", L, '            length = int.from_bytes(packet[4:6], "little")', '            length = int.from_bytes(packet[4:6], "big")'),
    M("decoder-marker", L, '            if packet[:2] != b"\\x5a\\x5a":', '            if packet[:2] != b"\\x5a\\x5b":'),
    M("special-case-length", L, "        encrypted_payload = Security.encrypt_aes(command)", "        encrypted_payload = Security.encrypt_aes(command) if len(command) % 16 else Security.encrypt_aes(command)[:-16]"),
    # neutral
    M("n-bytearray-header", L, '        header = b"\\x5A\\x5A"  # Start of packet\n        header += b"\\x01\\x11"  # Message type', '        header = b"\\x5A\\x5A\\x01\\x11"  # Start of packet + type'), 
    M("n-length-reordered", L, "length = 40 + len(encrypted_payload) + 16", "length = 16 + 40 + len(encrypted_payload)", "S"),
    M("n-sign-hoisted", L, "return packet + Security.sign(packet)", "sig = Security.sign(packet)\n        return packet + sig", "S"),
    M("n-header-merged", L, "        header += bytes(4)  # Message ID\n        header += cls._timestamp()  # Timestamp", "        header += bytes(4) + cls._timestamp()  # Message ID + Timestamp", "S"),
]
CORPUS[23].expect = "S"
# round 3 (C02.e): nothing of one packet is left in a buffer the next call reuses
CORPUS += [
    M("header-cached-on-class", L, '        header = b"\\x5A\\x5A"  # Start of packet\n        header += b"\\x01\\x11"  # Message type\n        header += length.to_bytes(2, "little")  # Packet size',
      '        if cls._hdr is None:\n            cls._hdr = bytearray(40)\n            cls._hdr[20:28] = device_id.to_bytes(8, "little")\n        cls._hdr[4:6] = length.to_bytes(2, "little")\n        header = b"\\x5A\\x5A"  # Start of packet\n        header += b"\\x01\\x11"  # Message type\n        header += bytes(cls._hdr[4:6])  # Packet size',
      also=[(L, 'class _Packet:\n    """Class to encode/decode command frames to packets."""\n', 'class _Packet:\n    """Class to encode/decode command frames to packets."""\n\n    _hdr = None\n')]),
]
# round 6: the other header reads feed the same interval evaluation; asserts of implied facts are proven, others are paths
CORPUS += [
    M("length-field-three-bytes", L, '            length = int.from_bytes(packet[4:6], "little")', '            length = int.from_bytes(packet[4:7], "little")'),
    M("assert-on-command-length", L, "        # Compute total length\n", "        assert len(command) < 200\n"),
    M("n-assert-block-multiple", L, "        # Compute total length\n", "        assert len(encrypted_payload) > 0 and len(encrypted_payload) % 16 == 0\n", "S"),
]
# round 7 (C02.f): what is written on a V2 connection is that encoding of the frame, handed unmodified to the transport
CORPUS += [
    M("raw-frame-written", L, "            self._protocol.write(packet)", "            self._protocol.write(data)"),
    M("transport-write-dropped", L, "        _LOGGER.debug(\"Sending data to %s: %s\", self.peer, data.hex())\n        self._transport.write(data)", "        _LOGGER.debug(\"Sending data to %s: %s\", self.peer, data.hex())"),
    M("transport-guard-inverted", L, "        if self._transport is None:\n            raise IOError()  # TODO better\n\n        if not self.alive:", "        if self._transport is not None:\n            raise IOError()  # TODO better\n\n        if not self.alive:"),
    M("n-encode-keyword-only", L, "    def encode(cls, device_id: int, command: bytes) -> bytes:", "    def encode(cls, command: bytes, *, device_id: int) -> bytes:", "S",
      also=[(L, "        packet = _Packet.encode(self._device_id, data)", "        packet = _Packet.encode(data, device_id=self._device_id)")]),
]
# round 8: the id is the constructor's (C02.f); the V2 receive path frames by the length field (C02.g)
CORPUS += [
    M("device-id-masked-in-init", L, "        self._device_id = device_id\n", "        self._device_id = device_id & 0xFFFFFFFFFFFF\n"),
    M("v2-size-clamped", L, "                total_size = max(int.from_bytes(buf[4:6], \"little\"), 56)", "                total_size = min(max(int.from_bytes(buf[4:6], \"little\"), 56), 311)"),
]
# round 9 (growth): an optional header field with a constant default nobody supplies
CORPUS += [
    M("n-message-id-default-zero", L, "    def encode(cls, device_id: int, command: bytes) -> bytes:", "    def encode(cls, device_id: int, command: bytes, message_id: int = 0) -> bytes:", "S",
      also=[(L, "        header += bytes(4)  # Message ID", "        header += message_id.to_bytes(4, \"little\")  # Message ID")]),
    M("message-id-default-one", L, "    def encode(cls, device_id: int, command: bytes) -> bytes:", "    def encode(cls, device_id: int, command: bytes, message_id: int = 1) -> bytes:",
      also=[(L, "        header += bytes(4)  # Message ID", "        header += message_id.to_bytes(4, \"little\")  # Message ID")]),
]
# round 12: the codec classes store nothing on themselves
CORPUS += [
    M("encrypt-into-class-level-scratch", "msmart/lan.py", "        # Encrypt the padded data\n        return cipher.encrypt(Padding.pad(data, 16))",
      "        cls._scratch = bytearray(cipher.encrypt(Padding.pad(data, 16)))\n        return bytes(cls._scratch)"),
]
