from ..selftest import M

C = "msmart/cloud.py"
D = "msmart/discover.py"
L = "msmart/lan.py"
CORPUS = [
    M("substring-match", C, '            if token["udpId"] == udpid:', '            if udpid in token["udpId"]:'),
    M("first-entry", C, '        for token in response["tokenlist"]:\n            if token["udpId"] == udpid:\n                return token["token"], token["key"]',
      '        for token in response["tokenlist"]:\n            return token["token"], token["key"]'),
    M("other-entrys-key", C, '                return token["token"], token["key"]', '                return token["token"], response["tokenlist"][0]["key"]'),
    M("startswith-match", C, '            if token["udpId"] == udpid:', '            if token["udpId"].startswith(udpid[:8]):'),
    M("no-match-returns-none", C, '        # No matching udpId in the tokenlist\n        raise CloudError(f"No token/key found for udpid {udpid}.")', '        # No matching udpId in the tokenlist\n        return None'),
    M("sign-before-update", C, '        body["sign"] = self._security.sign(endpoint, body)\n\n        # Build complete request URL\n        url = f"{self._base_url}{endpoint}"',
      '        body["sign"] = self._security.sign(endpoint, body)\n        body["stamp"] = self._timestamp()\n\n        # Build complete request URL\n        url = f"{self._base_url}{endpoint}"'),
    M("sign-not-sorted", C, "            query = unquote_plus(urlencode(sorted(data.items())))", "            query = unquote_plus(urlencode(list(data.items())))"),
    M("sign-key-first", C, "            msg = path + query + self.APP_KEY\n\n            sign = hashlib.sha256(msg.encode(\"ASCII\"))", "            msg = self.APP_KEY + path + query\n\n            sign = hashlib.sha256(msg.encode(\"ASCII\"))"),
    M("sign-md5", C, "            sign = hashlib.sha256(msg.encode(\"ASCII\"))\n            return sign.hexdigest()", "            sign = hashlib.md5(msg.encode(\"ASCII\"))\n            return sign.hexdigest()"),
    M("http-error-unmapped", C, "                except httpx.HTTPError as e:\n                    raise CloudError(f\"HTTP request failed: {e}\") from e\n", ""),
    M("retry-overrun", C, "                    if retries > 1:\n                        _LOGGER.warning(\"Request to %s timed out.\", url)\n                        retries -= 1", "                    if retries > 0:\n                        _LOGGER.warning(\"Request to %s timed out.\", url)\n                        retries -= 1"),
    M("timeout-not-cloud-error", C, '                        raise CloudError("No response from server.") from e', '                        raise TimeoutError("No response from server.") from e'),
    M("timeout-silently-none", C, '                    else:\n                        raise CloudError("No response from server.") from e', '                    else:\n                        retries -= 1'),
    M("api-error-not-cloud", C, "class ApiError(CloudError):", "class ApiError(Exception):"),
    M("one-byte-order", D, '        for endian in ["little", "big"]:', '        for endian in ["little"]:'),
    M("token-of-other-order", D, "            try:\n                await dev.authenticate(token, key)\n                return True", "            try:\n                await dev.authenticate(first_token or token, key)\n                return True",
      also=[(D, '        for endian in ["little", "big"]:', '        first_token = None\n        for endian in ["little", "big"]:'),
            (D, "            try:\n                await dev.authenticate(first_token or token, key)", "            first_token = first_token or token\n            try:\n                await dev.authenticate(first_token or token, key)")]),
    M("n-token-alias-never-set", D, "            try:\n                await dev.authenticate(token, key)\n                return True", "            try:\n                await dev.authenticate(first_token or token, key)\n                return True", "S",
      also=[(D, '        for endian in ["little", "big"]:', '        first_token = None\n        for endian in ["little", "big"]:')]),
    M("udpid-width", D, "                dev.id.to_bytes(6, endian)).hex()  # type: ignore", "                dev.id.to_bytes(8, endian)).hex()  # type: ignore"),
    M("udpid-fixed-order", D, "                dev.id.to_bytes(6, endian)).hex()  # type: ignore", "                dev.id.to_bytes(6, \"little\")).hex()  # type: ignore"),
    M("auth-error-stops", D, "            except AuthenticationError:\n                continue", "            except AuthenticationError:\n                return False"),
    M("udpid-no-xor", L, "            return strxor(mv_hash[:16], mv_hash[16:])", "            return bytes(mv_hash[:16])"),
    M("session-id-dropped", C, '        body = super()._build_request_body({\n            "sessionId": self._session_id\n        })', '        body = super()._build_request_body({\n        })'),
    M("password-plain-hash", C, "            login_hash = login_id + m1.hexdigest() + self.APP_KEY\n            m2 = hashlib.sha256(login_hash.encode(\"ASCII\"))\n\n            return m2.hexdigest()\n", "            return m1.hexdigest()\n"),
    M("session-not-stored", C, '        self._session_id = response["sessionId"]\n        _LOGGER.debug("Received sessionId: %s", self._session_id)', '        _LOGGER.debug("Received sessionId: %s", response["sessionId"])'),
    # neutral
    M("n-while-ge", C, "            while retries > 0:\n                try:\n                    # Post request", "            while retries >= 1:\n                try:\n                    # Post request", "S"),
    M("n-swap-handlers", C, """                except httpx.TimeoutException as e:
                    if retries > 1:
                        _LOGGER.warning("Request to %s timed out.", url)
                        retries -= 1
                    else:
                        raise CloudError("No response from server.") from e
                except httpx.HTTPError as e:
                    raise CloudError(f"HTTP request failed: {e}") from e""", """                except httpx.HTTPError as e:
                    raise CloudError(f"HTTP request failed: {e}") from e
                except httpx.TimeoutException as e:
                    if retries > 1:
                        _LOGGER.warning("Request to %s timed out.", url)
                        retries -= 1
                    else:
                        raise CloudError("No response from server.") from e""", "S"),
    M("n-eq-swapped", C, '            if token["udpId"] == udpid:', '            if udpid == token["udpId"]:', "S"),
    M("n-hoist-entry", C, '                return token["token"], token["key"]', '                tk, ky = token["token"], token["key"]\n                return tk, ky', "S"),
]
# round 4 (C19.d): the byte-order loop written with a result flag / prepared candidates
_TAIL = """            try:
                await dev.authenticate(token, key)
                return True
            except AuthenticationError:
                continue

        return False
"""
CORPUS += [
    M("flag-form-success-not-final", D, _TAIL, """            try:
                await dev.authenticate(token, key)
            except AuthenticationError:
                continue

            authenticated = True

        return authenticated
""".replace("            try:", "            authenticated = False\n            try:", 1)),
    M("candidates-big-only", D, "        for endian in [\"little\", \"big\"]:\n            udpid = Security.udpid(\n                dev.id.to_bytes(6, endian)).hex()  # type: ignore\n",
      "        for endian, udpid in [(o, Security.udpid(dev.id.to_bytes(6, \"big\")).hex()) for o in (\"little\", \"big\")]:\n"),
    M("n-candidates-prepared", D, "        for endian in [\"little\", \"big\"]:\n            udpid = Security.udpid(\n                dev.id.to_bytes(6, endian)).hex()  # type: ignore\n",
      "        for endian, udpid in [(o, Security.udpid(dev.id.to_bytes(6, o)).hex()) for o in (\"little\", \"big\")]:\n", "S"),
]
# round 5 (C19.a): the SmartHome password salt is the login key of the selected server
CORPUS += [
    M("smarthome-salt-international-only", C, "            login_hash = login_id + m1.hexdigest() + self._login_key\n            m2 = hashlib.sha256(login_hash.encode(\"ASCII\"))\n\n            return m2.hexdigest()",
      "            login_hash = login_id + m1.hexdigest() + self.LOGIN_KEY\n            m2 = hashlib.sha256(login_hash.encode(\"ASCII\"))\n\n            return m2.hexdigest()"),
    M("n-smarthome-salt-hoisted", C, "            login_hash = login_id + m1.hexdigest() + self._login_key\n            m2 = hashlib.sha256(login_hash.encode(\"ASCII\"))\n\n            return m2.hexdigest()",
      "            salt = self._login_key\n            login_hash = login_id + m1.hexdigest() + salt\n            m2 = hashlib.sha256(login_hash.encode(\"ASCII\"))\n\n            return m2.hexdigest()", "S"),
]
# round 7 (C19.t6): every network failure of Device.authenticate is an AuthenticationError (both byte orders get tried)
CORPUS += [
    M("device-authenticate-timeout-escapes", "msmart/base_device.py", "        except (ProtocolError, TimeoutError) as e:\n            raise AuthenticationError(e) from e", "        except ProtocolError as e:\n            raise AuthenticationError(e) from e"),
]
CORPUS += [
    M("error-code-test-inverted", C, "        if response_code == 0:\n            return body[\"result\"]", "        if response_code != 0:\n            return body[\"result\"]"),
    M("status-check-dropped", C, "                    r.raise_for_status()\n", ""),
    M("login-skipped-without-session", C, "        if self._session and not force:\n            return\n\n        # Get a login ID if we don't have one\n        if self._login_id is None:\n            self._login_id = await self._get_login_id()\n\n        # Login and store the session",
      "        if not self._session and not force:\n            return\n\n        # Get a login ID if we don't have one\n        if self._login_id is None:\n            self._login_id = await self._get_login_id()\n\n        # Login and store the session"),
    M("device-authenticate-not-awaited", D, "                await dev.authenticate(token, key)\n                return True", "                dev.authenticate(token, key)\n                return True"),
]
# round 11: the cached cloud client is the one of this run's region and account
CORPUS += [
    M("cloud-kept-unless-credentials-change", "msmart/discover.py", "        # Always use a new cloud connection\n        cls._cloud = None\n",
      "        if (account, password) != (cls._account, cls._password):\n            cls._cloud = None\n"),
    M("cloud-never-reset", "msmart/discover.py", "        # Always use a new cloud connection\n        cls._cloud = None\n", ""),
    M("n-cloud-kept-for-same-region-and-account", "msmart/discover.py", "        # Always use a new cloud connection\n        cls._cloud = None\n",
      "        if (region, account, password) != (cls._region, cls._account, cls._password):\n            cls._cloud = None\n", "S"),
]
# round 12: the password sent is derived for this request
CORPUS += [
    M("login-password-kept-from-earlier-login", "msmart/cloud.py", "                    \"password\": self._security.encrypt_password(self._login_id, self._password),",
      "                    \"password\": self._login_password if getattr(self, \"_login_password\", None) else self._security.encrypt_password(self._login_id, self._password),"),
]
