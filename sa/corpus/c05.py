from ..selftest import M

L = "msmart/lan.py"
CORPUS = [
    # F8 (fixed in d331695): the type nibble is unauthenticated; a handshake response is accepted only while one is pending
    M("handshake-guard-removed", L, """            if not self._handshake_pending:
                raise ProtocolError("Unexpected handshake response.")

""", ""),
    M("pending-flag-never-reset", L, """        finally:
            self._handshake_pending = False
""", ""),
    M("pending-flag-armed-after-read", L, """            self._handshake_pending = True
            self.write(token, packet_type=self.PacketType.HANDSHAKE_REQUEST)
            response = await self.read()
""", """            self.write(token, packet_type=self.PacketType.HANDSHAKE_REQUEST)
            response = await self.read()
            self._handshake_pending = True
"""),
    M("pending-flag-defaults-true", L, "        self._handshake_pending = False\n\n    @property", "        self._handshake_pending = True\n\n    @property"),
    M("n-pending-flag-armed-before-try", L, """        try:
            self._handshake_pending = True
            self.write(token, packet_type=self.PacketType.HANDSHAKE_REQUEST)""", """        self._handshake_pending = True
        try:
            self.write(token, packet_type=self.PacketType.HANDSHAKE_REQUEST)""", expect="S"),
    M("f1-returns", L, "return payload[2:len(payload) - pad].tobytes()", "return payload[2:-pad].tobytes()"),
    M("pad-16-at-zero", L, "pad = 16 - remainder if remainder != 0 else 0", "pad = 16 - remainder"),
    M("pad-wrong-modulus", L, "remainder = (len(data) + 2) % 16", "remainder = (len(data)) % 16"),
    M("pad-off-by-one", L, "pad = 16 - remainder if remainder != 0 else 0", "pad = 15 - remainder if remainder != 0 else 0"),
    M("tag-over-ciphertext-encoder", L, "        calc_hash = sha256(header + payload).digest()\n        return header + Security.encrypt_aes_cbc(self._local_key, payload) + calc_hash",
      "        enc = Security.encrypt_aes_cbc(self._local_key, payload)\n        calc_hash = sha256(header + enc).digest()\n        return header + enc + calc_hash"),
    M("tag-over-ciphertext-both", L, "        calc_hash = sha256(header + payload).digest()\n        return header + Security.encrypt_aes_cbc(self._local_key, payload) + calc_hash",
      "        enc = Security.encrypt_aes_cbc(self._local_key, payload)\n        calc_hash = sha256(header + enc).digest()\n        return header + enc + calc_hash",
      also=[(L, "if sha256(bytes(header) + decrypted_payload).digest() != rx_hash:", "if sha256(bytes(header) + bytes(payload)).digest() != rx_hash:")]),
    M("tag-check-removed", L, """        if sha256(bytes(header) + decrypted_payload).digest() != rx_hash:
            raise ProtocolError(
                "Calculated and received SHA256 digest do not match.")
""", ""),
    M("tag-check-prefix", L, "if sha256(bytes(header) + decrypted_payload).digest() != rx_hash:", "if sha256(bytes(header) + decrypted_payload).digest()[:16] != rx_hash[:16]:"),
    M("tag-check-wrong-class", L, """            raise ProtocolError(
                "Calculated and received SHA256 digest do not match.")""", """            raise ValueError(
                "Calculated and received SHA256 digest do not match.")"""),
    M("pad-nibble-shift", L, "            pad = header[5] >> 4", "            pad = header[5] >> 5"),
    M("pad-from-low-nibble", L, "            pad = header[5] >> 4", "            pad = header[5] & 0xF"),
    M("size-minus-2", L, "        length = len(data) + pad + 32", "        length = len(data) + pad + 30"),
    M("size-includes-id", L, "        length = len(data) + pad + 32", "        length = len(data) + 2 + pad + 32"),
    M("counter-1-byte", L, '        payload = packet_id.to_bytes(2, "big") + data + get_random_bytes(pad)', '        payload = packet_id.to_bytes(1, "big") + data + get_random_bytes(pad)'),
    M("counter-little", L, '        payload = packet_id.to_bytes(2, "big") + data + get_random_bytes(pad)', '        payload = packet_id.to_bytes(2, "little") + data + get_random_bytes(pad)'),
    M("type-nibble-high", L, "            [pad << 4 | self.PacketType.ENCRYPTED_REQUEST]))", "            [pad | self.PacketType.ENCRYPTED_REQUEST << 4]))"),
    M("strip-from-3", L, "return payload[2:len(payload) - pad].tobytes()", "return payload[3:len(payload) - pad].tobytes()"),
    M("size-little-endian", L, '        header += length.to_bytes(2, "big")', '        header += length.to_bytes(2, "little")'),
    M("iv-asymmetric", L, "        return AES.new(key, AES.MODE_CBC, iv=bytes(16)).decrypt(data)", "        return AES.new(key, AES.MODE_CBC, iv=bytes([1] * 16)).decrypt(data)"),
    M("magic-not-checked", L, """        if packet[4] != 0x20:
            raise ProtocolError(
                f"Invalid magic byte: 0x{packet[4]:X}")
""", ""),
    M("type-mask-wrong", L, "        packet_type = packet[5] & 0xF", "        packet_type = packet[5] & 0x7"),
    M("unexpected-type-valueerror", L, '            raise ProtocolError(f"Unexpected type: {packet_type}")', '            raise KeyError(f"Unexpected type: {packet_type}")'),
    # neutral
    M("n-or-none", L, "return payload[2:len(payload) - pad].tobytes()", "return payload[2:-pad or None].tobytes()", "S"),
    M("n-conditional-end", L, "return payload[2:len(payload) - pad].tobytes()", "return payload[2:(-pad if pad else None)].tobytes()", "S"),
    M("n-pad-expression", L, "pad = 16 - remainder if remainder != 0 else 0", "pad = (16 - remainder) % 16", "S"),
    M("n-hoist-cipher", L, "        calc_hash = sha256(header + payload).digest()\n        return header + Security.encrypt_aes_cbc(self._local_key, payload) + calc_hash",
      "        calc_hash = sha256(header + payload).digest()\n        enc = Security.encrypt_aes_cbc(self._local_key, payload)\n        return header + enc + calc_hash", "S"),
    M("n-eq-form", L, """        if sha256(bytes(header) + decrypted_payload).digest() != rx_hash:
            raise ProtocolError(
                "Calculated and received SHA256 digest do not match.")
""", """        if not sha256(bytes(header) + decrypted_payload).digest() == rx_hash:
            raise ProtocolError(
                "Calculated and received SHA256 digest do not match.")
""", "S"),
]
# round 4 (C05.f): the handshake-outstanding flag is lowered on every way out of the exchange, named or not
CORPUS += [
    M("pending-flag-lowered-by-hand", L, """        try:
            self._handshake_pending = True
            self.write(token, packet_type=self.PacketType.HANDSHAKE_REQUEST)
            response = await self.read()
        except ProtocolError as e:
            # Promote any protocol error to auth error
            raise AuthenticationError(e) from e
        finally:
            self._handshake_pending = False
""", """        self._handshake_pending = True
        try:
            self.write(token, packet_type=self.PacketType.HANDSHAKE_REQUEST)
            response = await self.read()
        except ProtocolError as e:
            # Promote any protocol error to auth error
            self._handshake_pending = False
            raise AuthenticationError(e) from e
        self._handshake_pending = False
"""),
    M("n-pending-flag-raised-before-try", L, """        try:
            self._handshake_pending = True
            self.write(token, packet_type=self.PacketType.HANDSHAKE_REQUEST)""", """        self._handshake_pending = True
        try:
            self.write(token, packet_type=self.PacketType.HANDSHAKE_REQUEST)""", "S"),
    M("n-pending-flag-catch-all", L, """        except ProtocolError as e:
            # Promote any protocol error to auth error
            raise AuthenticationError(e) from e
        finally:
            self._handshake_pending = False
""", """        except ProtocolError as e:
            # Promote any protocol error to auth error
            self._handshake_pending = False
            raise AuthenticationError(e) from e
        except BaseException:
            self._handshake_pending = False
            raise
        self._handshake_pending = False
""", "S"),
]
# round 11 (C05.t4): a response only reaches the decoder if reassembly delivers it
CORPUS += [
    M("v3-no-marker-clears-buffer", L, """                    "Peer %s: No start of packet found. Buffer: %s", self.peer, self._buffer.hex())
                return""", """                    "Peer %s: No start of packet found. Buffer: %s", self.peer, self._buffer.hex())
                self._buffer.clear()
                return"""),
]
