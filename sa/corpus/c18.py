from ..selftest import M

D = "msmart/discover.py"
CORPUS = [
    M("dedup-on-ip-port", D, "        if ip in self._discovered_ips:\n            return\n\n        self._discovered_ips.add(ip)",
      "        if addr in self._discovered_ips:\n            return\n\n        self._discovered_ips.add(addr)"),
    M("dedup-return-removed", D, "        if ip in self._discovered_ips:\n            return\n", "        if ip in self._discovered_ips:\n            pass\n"),
    M("dedup-removed", D, "        if ip in self._discovered_ips:\n            return\n\n        self._discovered_ips.add(ip)\n", ""),
    M("dedup-on-port", D, "        ip, _port = addr\n", "        _port, ip = addr\n"),
    M("add-removed", D, "        self._discovered_ips.add(ip)\n", ""),
    M("dedup-on-payload", D, "        if ip in self._discovered_ips:\n            return\n\n        self._discovered_ips.add(ip)",
      "        if data in self._discovered_ips:\n            return\n\n        self._discovered_ips.add(data)"),
    M("handler-removed", D, """        except (ValueError, LookupError, OSError, ET.ParseError) as e:
            # Malformed or truncated response, or an unreachable V1 device
            _LOGGER.error(
                "Failed to parse discovery response from %s. Error: %r", ip, e)
            return None
""", ""),
    M("handler-narrowed", D, "        except (ValueError, LookupError, OSError, ET.ParseError) as e:", "        except (ValueError, OSError, ET.ParseError) as e:"),
    M("handler-reraises", D, """                "Failed to parse discovery response from %s. Error: %r", ip, e)
            return None""", """                "Failed to parse discovery response from %s. Error: %r", ip, e)
            raise"""),
    M("version-error-uncaught", D, """        try:
            # pylint: disable=protected-access
            version = Discover._get_device_version(data)
        except DiscoverError:
            _LOGGER.error("Unknown device version for %s.", ip)
            return
""", "        version = Discover._get_device_version(data)\n"),
    M("new-raiser-in-callback", D, "        _LOGGER.debug(\"Discovery response from %s: %s\", ip, data.hex())\n",
      "        _LOGGER.debug(\"Discovery response from %s: %s\", ip, data.hex())\n        if data[0] == 0:\n            return\n"),
    M("shared-state", D, "        # Get device class corresponding to type\n", "        cls._region = info[\"name\"]\n"),
    M("tasks-not-recorded", D, "        self.tasks.add(task)\n", ""),
    # neutral
    M("n-create-before-add", D, "        self._discovered_ips.add(ip)\n\n        _LOGGER.debug(\"Discovery response from %s: %s\", ip, data.hex())\n",
      "        _LOGGER.debug(\"Discovery response from %s: %s\", ip, data.hex())\n        self._discovered_ips.add(ip)\n", "S"),
    M("n-index-style", D, "        ip, _port = addr\n", "        ip = addr[0]\n", "S"),
    M("n-positive-guard", D, "        if ip in self._discovered_ips:\n            return\n\n        self._discovered_ips.add(ip)\n",
      "        if ip in self._discovered_ips:\n            return\n        else:\n            self._discovered_ips.add(ip)\n", "S"),
    M("n-catch-exception", D, "        except (ValueError, LookupError, OSError, ET.ParseError) as e:", "        except Exception as e:", "S"),
]
# round 4 (C18.a): the result is built from every recorded task; nothing takes tasks out of the record
CORPUS += [
    M("finished-tasks-dropped", D, "        self.tasks.add(task)\n", "        self.tasks.add(task)\n        task.add_done_callback(self.tasks.discard)\n"),
    M("result-from-first-task-only", D, "        devices = await asyncio.gather(*protocol.tasks)", "        devices = await asyncio.gather(*list(protocol.tasks)[:1])"),
    M("n-gather-over-list", D, "        devices = await asyncio.gather(*protocol.tasks)", "        devices = await asyncio.gather(*list(protocol.tasks))", "S"),
]
# round 6 (C18.a / C17): the reported ip is the source address of the reply
CORPUS += [
    M("ip-from-payload", D, '            return {"ip": ip, "port": port,', '            return {"ip": str(ip_address), "port": port,'),
]
# round 8 (C18.a): recorded tasks are not cancelled
CORPUS += [
    M("connection-lost-cancels-tasks", D, "        self._discovered_ips.add(ip)\n", "        self._discovered_ips.add(ip)\n        for t in self.tasks:\n            t.cancel()\n"),
]
# round 10: growth - a registry of devices shared between replies; a new field formatted from a window of unknown length
CORPUS += [
    M("device-registry-shared", D, "        dev = device_class(**info)\n", "        dev = device_class(**info)\n        cls._devices[info[\"device_id\"]] = dev\n"),
    M("registry-setdefault", D, "        dev = device_class(**info)\n", "        dev = cls._devices.setdefault(info[\"device_id\"], device_class(**info))\n"),
    M("mac-formatted-from-short-window", D, "                device_type = int(name.split(\"_\")[1], 16)\n",
      "                device_type = int(name.split(\"_\")[1], 16)\n                off = 41 + name_length\n                if len(decrypted_mv) > off:\n                    sn = \"%02x:%02x\" % tuple(decrypted_mv[off+2:off+4])\n"),
    M("n-mac-formatted-from-full-window", D, "                device_type = int(name.split(\"_\")[1], 16)\n",
      "                device_type = int(name.split(\"_\")[1], 16)\n                off = 41 + name_length\n                if len(decrypted_mv) >= off + 4:\n                    sn = \"%02x:%02x\" % tuple(decrypted_mv[off+2:off+4])\n", "S"),
]
# round 12: the task set is gathered after the listening socket was closed
CORPUS += [
    M("gather-inside-the-closing-try", "msmart/discover.py", """        finally:
            transport.close()

        _LOGGER.debug("Discovered %s devices.", len(protocol.tasks))

        # Wait for remaining tasks
        devices = await asyncio.gather(*protocol.tasks)
""", """            _LOGGER.debug("Discovered %s devices.", len(protocol.tasks))

            # Wait for remaining tasks
            devices = await asyncio.gather(*protocol.tasks)
        finally:
            transport.close()
"""),
]
