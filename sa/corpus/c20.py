from ..selftest import M

C = "msmart/cli.py"
D = "msmart/device/AC/device.py"
CORPUS = [
    M("upper-removed", C, "                    new_properties[name] = attr_type[value.upper()]", "                    new_properties[name] = attr_type[value]"),
    M("connect-before-parse", C, "    # Parse each setting, checking if the property exists and the supplied value is valid\n    new_properties = {}", "    device = await _connect(args)\n    # Parse each setting\n    new_properties = {}",
      also=[(C, "    # Connect to the device\n    device = await _connect(args)\n\n    # Get current state\n    _LOGGER.info(\"Querying device state.\")\n    await device.refresh()\n\n    if not device.online:\n        _LOGGER.error(\"Device is not online.\")\n        exit(1)\n\n    if args.capabilities:\n        _LOGGER.info(\"Querying device capabilities.\")\n        await device.get_capabilities()\n\n    # Handle display",
             "    # Get current state\n    _LOGGER.info(\"Querying device state.\")\n    await device.refresh()\n\n    if not device.online:\n        _LOGGER.error(\"Device is not online.\")\n        exit(1)\n\n    if args.capabilities:\n        _LOGGER.info(\"Querying device capabilities.\")\n        await device.get_capabilities()\n\n    # Handle display")]),
    M("exit-zero", C, "            _LOGGER.error(\"'%s' is not a valid device property.\", name)\n            exit(1)", "            _LOGGER.error(\"'%s' is not a valid device property.\", name)\n            exit(0)"),
    M("display-unconditional", C, "        if display != device.display_on:\n            _LOGGER.info(\"Setting '%s' to %s.\", KEY_DISPLAY_ON, display)\n            await device.toggle_display()",
      "        _LOGGER.info(\"Setting '%s' to %s.\", KEY_DISPLAY_ON, display)\n        await device.toggle_display()"),
    M("apply-before-setattr", C, "    # Set remaining properties\n    for prop, value in new_properties.items():\n        _LOGGER.info(\"Setting '%s' to %r.\", prop, value)\n        setattr(device, prop, value)\n\n    # Apply to device\n    await device.apply()",
      "    # Apply to device\n    await device.apply()\n    # Set remaining properties\n    for prop, value in new_properties.items():\n        _LOGGER.info(\"Setting '%s' to %r.\", prop, value)\n        setattr(device, prop, value)"),
    M("raw-int-any-enum", C, "                    if attr_type == AC.FanSpeed:\n                        new_properties[name] = int(value)\n                    else:\n                        _LOGGER.error(\"Value '%d' is not a valid %s\",\n                                      value, attr_type.__qualname__)\n                        exit(1)",
      "                    new_properties[name] = int(value)"),
    M("unknown-not-rejected", C, "        if prop is None or not isinstance(prop, property):\n            _LOGGER.error(\"'%s' is not a valid device property.\", name)\n            exit(1)\n", ""),
    M("readonly-not-rejected", C, "        if name != KEY_DISPLAY_ON and prop.fset is None:\n            _LOGGER.error(\"'%s' property is not writable.\", name)\n            exit(1)\n", ""),
    M("capitalize-removed", C, "            new_properties[name] = convert(value.capitalize(), bool)", "            new_properties[name] = convert(value, bool)"),
    M("convert-no-exit", C, "            _LOGGER.error(\"Value '%s' is not a valid %s\",\n                          v, t.__qualname__)\n            exit(1)", "            _LOGGER.error(\"Value '%s' is not a valid %s\",\n                          v, t.__qualname__)\n            return None"),
    M("refresh-removed", C, "    # Get current state\n    _LOGGER.info(\"Querying device state.\")\n    await device.refresh()\n", "    # Get current state\n"),
    M("apply-unconditional", C, "    # Don't apply if there's not new settings\n    if not new_properties:\n        return\n", ""),
    M("manual-port", C, "        device = AC(ip=args.host, port=6444, device_id=args.device_id)", "        device = AC(ip=args.host, port=6445, device_id=args.device_id)"),
    M("default-none", D, "        self._target_humidity = 40\n\n        # Support all known modes initially", "        self._target_humidity = None\n\n        # Support all known modes initially"),
    M("lowercase-member", D, "        FAN_ONLY = 5\n        SMART_DRY = 6\n\n        DEFAULT = FAN_ONLY", "        Fan_Only = 5\n        SMART_DRY = 6\n\n        DEFAULT = Fan_Only"),
    M("set-all-attributes", C, "    for prop, value in new_properties.items():\n        _LOGGER.info(\"Setting '%s' to %r.\", prop, value)\n        setattr(device, prop, value)", "    for prop, value in {**new_properties, \"beep\": True}.items():\n        _LOGGER.info(\"Setting '%s' to %r.\", prop, value)\n        setattr(device, prop, value)"),
    M("wrong-key-stored", C, "                    new_properties[name] = attr_type[value.upper()]", "                    new_properties[value] = attr_type[value.upper()]"),
    M("exists-check-weakened", C, "        if prop is None or not isinstance(prop, property):", "        if prop is None:"),
    # neutral
    M("n-rename-loop-var", C, "    for prop, value in new_properties.items():\n        _LOGGER.info(\"Setting '%s' to %r.\", prop, value)\n        setattr(device, prop, value)", "    for key, val in new_properties.items():\n        _LOGGER.info(\"Setting '%s' to %r.\", key, val)\n        setattr(device, key, val)", "S"),
    M("n-exit-2", C, "            _LOGGER.error(\"'%s' property is not writable.\", name)\n            exit(1)", "            _LOGGER.error(\"'%s' property is not writable.\", name)\n            exit(2)", "S"),
    M("n-len-check", C, "    if not new_properties:\n        return", "    if len(new_properties) == 0:\n        return", "S"),
]
# round 7 (C20.f): the exit status _control chose is the one the process ends with
CORPUS += [
    M("exit-zero-in-finally", "msmart/cli.py", "    except KeyboardInterrupt:\n        pass\n\n    exit(0)", "    except KeyboardInterrupt:\n        pass\n    finally:\n        exit(0)"),
    M("system-exit-swallowed", "msmart/cli.py", "    except KeyboardInterrupt:\n        pass\n\n    exit(0)", "    except (KeyboardInterrupt, SystemExit):\n        pass\n\n    exit(0)"),
    M("n-shutdown-in-finally", "msmart/cli.py", "    except KeyboardInterrupt:\n        pass\n\n    exit(0)", "    except KeyboardInterrupt:\n        pass\n    finally:\n        logging.shutdown()\n\n    exit(0)", "S"),
]
# round 8 (C20.f): a catch-all in the runner does not turn a rejection into status 0
CORPUS += [
    M("runner-catches-exception", "msmart/cli.py", "    except KeyboardInterrupt:\n        pass\n\n    exit(0)", "    except KeyboardInterrupt:\n        pass\n    except Exception as e:\n        _LOGGER.error(\"Command failed: %s\", e)\n\n    exit(0)"),
    M("n-runner-catches-exception-exit-1", "msmart/cli.py", "    except KeyboardInterrupt:\n        pass\n\n    exit(0)", "    except KeyboardInterrupt:\n        pass\n    except Exception as e:\n        _LOGGER.error(\"Command failed: %s\", e)\n        exit(1)\n\n    exit(0)", "S"),
]
# round 10: growth - apply() adjusts a value on its way into the command
CORPUS += [
    M("apply-rounds-target-temperature", "msmart/device/AC/device.py", "        cmd.target_temperature = or_default(self._target_temperature, 25)",
      "        cmd.target_temperature = float(round(or_default(self._target_temperature, 25)))"),
]
# round 11 (C20.t4): a toggle whose reply is lost in reassembly is retransmitted - and a toggle is not idempotent
CORPUS += [
    M("v3-no-marker-clears-buffer", "msmart/lan.py", """                    "Peer %s: No start of packet found. Buffer: %s", self.peer, self._buffer.hex())
                return""", """                    "Peer %s: No start of packet found. Buffer: %s", self.peer, self._buffer.hex())
                self._buffer.clear()
                return"""),
]
