from ..selftest import M

L = "msmart/lan.py"
# V3-specific anchors (the V2 callback repeats some lines since the F6 fix)
GUARD = """                # Ensure entire packet is received
                if len(buf) < total_size:
                    _LOGGER.warning(
                        "Peer %s: Partial packet received. Buffer: %s", self.peer, buf.hex())"""
HDR = """                if len(buf) < 6:
                    _LOGGER.warning(
                        "Peer %s: Buffer too short. Buffer: %s", self.peer, buf.hex())"""
EXT = """                packet, self._buffer = buf[:total_size], bytearray(
                    buf[total_size:])

                # Queue the received packet
                self._queue.put_nowait(packet.tobytes())

    def _decode_encrypted_response"""
ENTRY = """        _LOGGER.debug("Received data from %s: %s", self.peer, data.hex())

        # Add incoming data to buffer
        self._buffer += data

        # Process buffer until empty
        while len(self._buffer) > 0:
            # Find start of packet
            start = self._buffer.find(b"\\x83\\x70")"""
TRIM = """                        "Peer %s: Ignoring data before packet: %s", self.peer, buf[:start].hex())

                # Trim any leading data
                buf = buf[start:]
"""


def g(new_first_line):
    return GUARD.replace("                if len(buf) < total_size:", new_first_line)


def e(new):
    return EXT.replace("""                packet, self._buffer = buf[:total_size], bytearray(
                    buf[total_size:])

                # Queue the received packet
                self._queue.put_nowait(packet.tobytes())""", new)


CORPUS = [
    M("plus-6", L, 'total_size = int.from_bytes(buf[2:4], "big") + 8', 'total_size = int.from_bytes(buf[2:4], "big") + 6'),
    M("lt-to-le", L, GUARD, g("                if len(buf) <= total_size:")),
    M("guard-loosened", L, GUARD, g("                if len(buf) < total_size - 2:")),
    M("buffer-replaced", L, ENTRY, ENTRY.replace("self._buffer += data", "self._buffer = bytearray(data)")),
    M("remainder-dropped", L, EXT, e("                packet, self._buffer = buf[:total_size], bytearray(0)\n\n                # Queue the received packet\n                self._queue.put_nowait(packet.tobytes())")),
    M("while-to-if", L, ENTRY, ENTRY.replace("        while len(self._buffer) > 0:", "        if len(self._buffer) > 0:")),
    M("little-endian-size", L, 'total_size = int.from_bytes(buf[2:4], "big") + 8', 'total_size = int.from_bytes(buf[2:4], "little") + 8'),
    M("double-put", L, EXT, e("                packet, self._buffer = buf[:total_size], bytearray(\n                    buf[total_size:])\n\n                # Queue the received packet\n                self._queue.put_nowait(packet.tobytes())\n                self._queue.put_nowait(packet.tobytes())")),
    M("partial-clears-buffer", L, """                        "Peer %s: Partial packet received. Buffer: %s", self.peer, buf.hex())
                    return""", """                        "Peer %s: Partial packet received. Buffer: %s", self.peer, buf.hex())
                    self._buffer = bytearray(0)
                    return"""),
    M("size-field-offset", L, 'total_size = int.from_bytes(buf[2:4], "big") + 8', 'total_size = int.from_bytes(buf[3:5], "big") + 8'),
    M("kept-off-by-one", L, EXT, e("                packet, self._buffer = buf[:total_size], bytearray(\n                    buf[total_size + 1:])\n\n                # Queue the received packet\n                self._queue.put_nowait(packet.tobytes())")),
    M("no-trim", L, TRIM, TRIM.replace("                buf = buf[start:]\n", "                pass\n")),
    M("marker-wrong", L, '            start = self._buffer.find(b"\\x83\\x70")', '            start = self._buffer.find(b"\\x83\\x71")'),
    M("encoder-size-drift", L, "        length = len(data) + pad + 32", "        length = len(data) + pad + 34"),
    M("handshake-size-drift", L, "        header = self._build_header(len(data), bytes(\n            [self.PacketType.HANDSHAKE_REQUEST]))", "        header = self._build_header(len(data) + 2, bytes(\n            [self.PacketType.HANDSHAKE_REQUEST]))"),
    M("loop-stops-early", L, ENTRY, ENTRY.replace("        while len(self._buffer) > 0:", "        while len(self._buffer) > 64:")),
    M("header-guard-too-big", L, HDR, HDR.replace("if len(buf) < 6:", "if len(buf) < 16:")),
    M("lifo-queue", L, "        self._queue = asyncio.Queue()", "        self._queue = asyncio.LifoQueue()"),
    M("stale-watermark", L, ENTRY, ENTRY.replace("        # Process buffer until empty\n", "        if len(self._buffer) < getattr(self, \"_needed\", 0):\n            return\n\n        # Process buffer until empty\n")),
    M("no-marker-clears-buffer", L, """                    "Peer %s: No start of packet found. Buffer: %s", self.peer, self._buffer.hex())
                return""", """                    "Peer %s: No start of packet found. Buffer: %s", self.peer, self._buffer.hex())
                self._buffer.clear()
                return"""),
    # neutral
    M("n-not-ge", L, GUARD, g("                if not len(buf) >= total_size:"), "S"),
    M("n-header-guard-4", L, HDR, HDR.replace("if len(buf) < 6:", "if len(buf) < 4:"), "S"),
    M("n-header-guard-8", L, HDR, HDR.replace("if len(buf) < 6:", "if len(buf) < 8:"), "S"),
    M("n-while-truthy", L, ENTRY, ENTRY.replace("        while len(self._buffer) > 0:", "        while self._buffer:"), "S"),
    M("n-two-statements", L, EXT, e("                packet = buf[:total_size]\n                self._buffer = bytearray(buf[total_size:])\n\n                # Queue the received packet\n                self._queue.put_nowait(packet.tobytes())"), "S"),
    M("n-rename", L, 'total_size = int.from_bytes(buf[2:4], "big") + 8', 'size = int.from_bytes(buf[2:4], "big")\n                total_size = size + 8', "S"),
    M("n-empty-segment-return", L, ENTRY, ENTRY.replace("        # Add incoming data to buffer\n", "        if not data:\n            return\n\n        # Add incoming data to buffer\n"), "S"),
]
# round 7 (C04.e): the reassembly buffer belongs to one connection and to its receive callback
CORPUS += [
    M("flush-clears-buffer", L, "        try:\n            while True:\n                self._queue.get_nowait()\n        except asyncio.QueueEmpty:\n            pass\n",
      "        try:\n            while True:\n                self._queue.get_nowait()\n        except asyncio.QueueEmpty:\n            pass\n        self._buffer.clear()\n"),
    M("disconnect-resets-buffer", L, "        _LOGGER.debug(\"Disconnecting from %s.\", self.peer)\n", "        _LOGGER.debug(\"Disconnecting from %s.\", self.peer)\n        self._buffer = bytearray(0)\n"),
]
# round 8 (C04.d): the receive queue is unbounded
CORPUS += [
    M("queue-bounded", L, "        self._queue = asyncio.Queue()\n", "        self._queue = asyncio.Queue(maxsize=4)\n"),
    M("n-queue-maxsize-zero", L, "        self._queue = asyncio.Queue()\n", "        self._queue = asyncio.Queue(maxsize=0)\n", "S"),
]
