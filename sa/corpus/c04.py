from ..selftest import M

L = "msmart/lan.py"
EXT = """                packet, self._buffer = buf[:total_size], bytearray(
                    buf[total_size:])"""
CORPUS = [
    M("plus-6", L, 'total_size = int.from_bytes(buf[2:4], "big") + 8', 'total_size = int.from_bytes(buf[2:4], "big") + 6'),
    M("lt-to-le", L, "                if len(buf) < total_size:", "                if len(buf) <= total_size:"),
    M("guard-loosened", L, "                if len(buf) < total_size:", "                if len(buf) < total_size - 2:"),
    M("buffer-replaced", L, "        self._buffer += data\n", "        self._buffer = bytearray(data)\n"),
    M("remainder-dropped", L, EXT, "                packet, self._buffer = buf[:total_size], bytearray(0)"),
    M("while-to-if", L, "        while len(self._buffer) > 0:", "        if len(self._buffer) > 0:"),
    M("little-endian-size", L, 'total_size = int.from_bytes(buf[2:4], "big") + 8', 'total_size = int.from_bytes(buf[2:4], "little") + 8'),
    M("double-put", L, "                self._queue.put_nowait(packet.tobytes())", "                self._queue.put_nowait(packet.tobytes())\n                self._queue.put_nowait(packet.tobytes())"),
    M("partial-clears-buffer", L, """                        "Peer %s: Partial packet received. Buffer: %s", self.peer, buf.hex())
                    return""", """                        "Peer %s: Partial packet received. Buffer: %s", self.peer, buf.hex())
                    self._buffer = bytearray(0)
                    return"""),
    M("size-field-offset", L, 'total_size = int.from_bytes(buf[2:4], "big") + 8', 'total_size = int.from_bytes(buf[3:5], "big") + 8'),
    M("kept-off-by-one", L, EXT, "                packet, self._buffer = buf[:total_size], bytearray(\n                    buf[total_size + 1:])"),
    M("no-trim", L, "                buf = buf[start:]\n", "                pass\n"),
    M("marker-wrong", L, '            start = self._buffer.find(b"\\x83\\x70")', '            start = self._buffer.find(b"\\x83\\x71")'),
    M("encoder-size-drift", L, "        length = len(data) + pad + 32", "        length = len(data) + pad + 34"),
    M("handshake-size-drift", L, "        header = self._build_header(len(data), bytes(\n            [self.PacketType.HANDSHAKE_REQUEST]))", "        header = self._build_header(len(data) + 2, bytes(\n            [self.PacketType.HANDSHAKE_REQUEST]))"),
    M("loop-stops-early", L, "        while len(self._buffer) > 0:", "        while len(self._buffer) > 64:"),
    M("header-guard-too-big", L, "                if len(buf) < 6:", "                if len(buf) < 16:"),
    M("lifo-queue", L, "        self._queue = asyncio.Queue()", "        self._queue = asyncio.LifoQueue()"),
    # neutral
    M("n-not-ge", L, "                if len(buf) < total_size:", "                if not len(buf) >= total_size:", "S"),
    M("n-header-guard-4", L, "                if len(buf) < 6:", "                if len(buf) < 4:", "S"),
    M("n-header-guard-8", L, "                if len(buf) < 6:", "                if len(buf) < 8:", "S"),
    M("n-while-truthy", L, "        while len(self._buffer) > 0:", "        while self._buffer:", "S"),
    M("n-two-statements", L, EXT, "                packet = buf[:total_size]\n                self._buffer = bytearray(buf[total_size:])", "S"),
    M("n-rename", L, 'total_size = int.from_bytes(buf[2:4], "big") + 8', 'size = int.from_bytes(buf[2:4], "big")\n                total_size = size + 8', "S"),
]
