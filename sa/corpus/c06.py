from ..selftest import M

L = "msmart/lan.py"
B = "msmart/base_device.py"
CORPUS = [
    M("proof-inverted", L, "        if sha256(decrypted_payload).digest() != rx_hash:\n            raise AuthenticationError(", "        if sha256(decrypted_payload).digest() == rx_hash:\n            raise AuthenticationError("),
    M("proof-removed", L, """        if sha256(decrypted_payload).digest() != rx_hash:
            raise AuthenticationError(
                "Calculated and received SHA256 digest do not match.")
""", ""),
    M("proof-prefix", L, "        if sha256(decrypted_payload).digest() != rx_hash:\n            raise AuthenticationError(", "        if sha256(decrypted_payload).digest()[:8] != rx_hash[:8]:\n            raise AuthenticationError("),
    M("proof-over-ciphertext", L, "        if sha256(decrypted_payload).digest() != rx_hash:\n            raise AuthenticationError(", "        if sha256(bytes(payload)).digest() != rx_hash:\n            raise AuthenticationError("),
    M("key-stored-before-check", L, "        decrypted_payload = Security.decrypt_aes_cbc(key, payload)\n\n        if sha256(decrypted_payload).digest() != rx_hash:",
      "        decrypted_payload = Security.decrypt_aes_cbc(key, payload)\n        self._local_key = strxor(decrypted_payload, key)\n\n        if sha256(decrypted_payload).digest() != rx_hash:"),
    M("length-check-removed", L, """        if len(data) != 64:
            raise AuthenticationError(
                "Invalid data length for key handshake.")
""", ""),
    M("creds-cached-before-loop", L, "        # Attempt to authenticate\n        while retries > 0:", "        self._token = token\n        self._key = key\n        # Attempt to authenticate\n        while retries > 0:"),
    M("creds-cached-in-handler", L, """                if retries > 1:
                    _LOGGER.debug(
                        "Authentication timeout. Resending to %s.", self._protocol.peer)
                    retries -= 1""", """                if retries > 1:
                    _LOGGER.debug(
                        "Authentication timeout. Resending to %s.", self._protocol.peer)
                    self._token = token
                    retries -= 1"""),
    M("handshake-default-type", L, "            self.write(token, packet_type=self.PacketType.HANDSHAKE_REQUEST)", "            self.write(token)"),
    M("protocol-error-swallowed", L, "        except ProtocolError as e:\n            # Promote any protocol error to auth error\n            raise AuthenticationError(e) from e", "        except ProtocolError as e:\n            response = bytes(64)"),
    M("promotion-removed", L, """        except ProtocolError as e:
            # Promote any protocol error to auth error
            raise AuthenticationError(e) from e
        finally:""", """        finally:"""),
    M("device-maps-only-protocol", B, "        except (ProtocolError, TimeoutError) as e:\n            raise AuthenticationError(e) from e", "        except ProtocolError as e:\n            raise AuthenticationError(e) from e"),
    M("token-modified", L, "            self.write(token, packet_type=self.PacketType.HANDSHAKE_REQUEST)", "            self.write(token[::-1], packet_type=self.PacketType.HANDSHAKE_REQUEST)"),
    M("extra-write", L, "            self.write(token, packet_type=self.PacketType.HANDSHAKE_REQUEST)", "            self.write(token, packet_type=self.PacketType.HANDSHAKE_REQUEST)\n            self.write(key, packet_type=self.PacketType.HANDSHAKE_REQUEST)"),
    M("expiry-24h", L, "    AUTHENTICATION_EXPIRATION = timedelta(hours=12)", "    AUTHENTICATION_EXPIRATION = timedelta(hours=24)"),
    M("expiry-not-stored", L, "        self._local_key_expiration = datetime.now(\n            timezone.utc) + self.AUTHENTICATION_EXPIRATION\n", "        expiration = datetime.now(\n            timezone.utc) + self.AUTHENTICATION_EXPIRATION\n",
      also=[(L, "self.peer, self._local_key_expiration.isoformat(timespec=\"seconds\"), self._local_key.hex())", "self.peer, expiration.isoformat(timespec=\"seconds\"), self._local_key.hex())")]),
    M("key-not-from-verification", L, "            self._local_key = self._get_local_key(key, response_mv)", "            self._get_local_key(key, response_mv)\n            self._local_key = strxor(response_mv[:32], key)"),
    M("wrong-key-used", L, "            self._local_key = self._get_local_key(key, response_mv)", "            self._local_key = self._get_local_key(token[:32], response_mv)"),
    M("fresh-protocol-has-key", L, "        self._local_key = None\n        self._local_key_expiration = None\n        self._handshake_pending", "        self._local_key = bytes(32)\n        self._local_key_expiration = None\n        self._handshake_pending"),
    M("expiry-before-proof", L, """        # Generate local key from cloud key
        with memoryview(response) as response_mv:
            self._local_key = self._get_local_key(key, response_mv)

        # Set expiration time
        self._local_key_expiration = datetime.now(
            timezone.utc) + self.AUTHENTICATION_EXPIRATION
""", """        # Set expiration time
        self._local_key_expiration = datetime.now(
            timezone.utc) + self.AUTHENTICATION_EXPIRATION

        # Generate local key from cloud key
        with memoryview(response) as response_mv:
            self._local_key = self._get_local_key(key, response_mv)
"""),
    M("no-flush", L, "        # Flush any existing data from the queue\n        self._flush()\n", ""),
    M("halves-overlap", L, "        payload = data[:32]\n        rx_hash = data[32:]", "        payload = data[:32]\n        rx_hash = data[16:48]"),
    # neutral
    M("n-eq-form", L, "        if sha256(decrypted_payload).digest() != rx_hash:\n            raise AuthenticationError(\n                \"Calculated and received SHA256 digest do not match.\")\n\n        # Construct the local key\n        return strxor(decrypted_payload, key)",
      "        if sha256(decrypted_payload).digest() == rx_hash:\n            return strxor(decrypted_payload, key)\n        raise AuthenticationError(\n            \"Calculated and received SHA256 digest do not match.\")", "S"),
    M("n-hoist-key", L, "            self._local_key = self._get_local_key(key, response_mv)", "            local_key = self._get_local_key(key, response_mv)\n            self._local_key = local_key", "S"),
    M("n-retry-ge", L, "                if retries > 1:\n                    _LOGGER.debug(\n                        \"Authentication timeout.", "                if retries >= 2:\n                    _LOGGER.debug(\n                        \"Authentication timeout.", "S"),
]
# round 6: C06 imports the C05 premises (the response handed to authenticate is the whole decoded payload)
CORPUS += [
    M("encrypted-payload-cut", L, "        return payload[2:].tobytes()", "        return payload[2:-1].tobytes()"),
]
# round 7: _flush empties the queue (C06.c); which credentials are offered (C06.e)
CORPUS += [
    M("flush-takes-one", L, "        try:\n            while True:\n                self._queue.get_nowait()\n        except asyncio.QueueEmpty:\n            pass\n",
      "        if not self._queue.empty():\n            self._queue.get_nowait()\n"),
    M("flush-bounded", L, "        try:\n            while True:\n                self._queue.get_nowait()\n        except asyncio.QueueEmpty:\n            pass\n",
      "        try:\n            for _ in range(4):\n                self._queue.get_nowait()\n        except asyncio.QueueEmpty:\n            pass\n"),
    M("n-flush-while-not-empty", L, "        try:\n            while True:\n                self._queue.get_nowait()\n        except asyncio.QueueEmpty:\n            pass\n",
      "        while not self._queue.empty():\n            self._queue.get_nowait()\n", "S"),
    M("stored-token-not-used", L, "            token = self._token\n            key = self._key\n", "            key = self._key\n"),
    M("hex-key-not-converted", L, "            token = convert(token)\n            key = convert(key)\n", "            token = convert(token)\n"),
]
CORPUS += [
    M("device-authenticate-swallows-failure", "msmart/base_device.py", "        except (ProtocolError, TimeoutError) as e:\n            raise AuthenticationError(e) from e", "        except (ProtocolError, TimeoutError) as e:\n            _LOGGER.error(e)"),
    M("device-authenticate-no-handshake", "msmart/base_device.py", "            await self._lan.authenticate(token, key)\n", "            pass\n"),
]
# round 9 (growth): dropping the session is not restricted, installing one is
CORPUS += [
    M("n-deauthenticate-clears-key", L, "    def _encode_encrypted_request(self, packet_id: int, data: bytes) -> bytes:", "    def deauthenticate(self) -> None:\n        self._local_key = None\n        self._local_key_expiration = None\n\n    def _encode_encrypted_request(self, packet_id: int, data: bytes) -> bytes:", "S"),
    M("key-installed-by-another-method", L, "    def _encode_encrypted_request(self, packet_id: int, data: bytes) -> bytes:", "    def preset_key(self, key: bytes) -> None:\n        self._local_key = key\n\n    def _encode_encrypted_request(self, packet_id: int, data: bytes) -> bytes:"),
]
