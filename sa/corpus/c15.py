from ..selftest import M

C = "msmart/device/AC/command.py"
D = "msmart/device/AC/device.py"
CORPUS = [
    M("f4-returns", C, """                if size < 6:
                    # Advanced to next capability
                    caps = caps[3+size:]
                    continue""", """                if size < 6:
                    continue"""),
    M("unknown-id-no-advance", C, """                # Advanced to next capability
                caps = caps[3+size:]
                continue

            # Fetch first cap value""", """                continue

            # Fetch first cap value"""),
    M("advance-plus-one", C, """            # Advanced to next capability
            caps = caps[3+size:]

        # Check if there are additional capabilities""", """            # Advanced to next capability
            caps = caps[3+size+1:]

        # Check if there are additional capabilities"""),
    M("empty-advances-4", C, "            if size == 0:\n                caps = caps[3:]", "            if size == 0:\n                caps = caps[4:]"),
    M("read-past-record", C, "                self._capabilities[\"decimals\"] = (\n                    caps[9] if size > 6 else caps[2]) != 0",
      "                self._capabilities[\"decimals\"] = (\n                    caps[9] if size > 5 else caps[2]) != 0"),
    M("temperatures-guard-loosened", C, "                if size < 6:\n                    # Advanced", "                if size < 5:\n                    # Advanced"),
    M("cross-record-state", C, "            # Fetch first cap value\n            value = caps[3]", "            # Fetch first cap value\n            value = caps[3] if \"eco\" not in self._capabilities else 0"),
    M("merge-reversed", D, "                response.merge(additional_response)", "                additional_response.merge(response)"),
    M("update-before-merge", D, """        # Send 2nd capabilities request if needed
        if response.additional_capabilities:""", """        self._update_capabilities(response)
        # Send 2nd capabilities request if needed
        if response.additional_capabilities:""", also=[(D, "        # Update device capabilities\n        self._update_capabilities(response)\n", "")]),
    M("merge-keeps-first", C, "        self._capabilities.update(other._capabilities)", "        self._capabilities = {**other._capabilities, **self._capabilities}"),
    M("second-request-same-page", D, "            cmd = GetCapabilitiesCommand(True)", "            cmd = GetCapabilitiesCommand()"),
    M("flag-wrong-byte", C, "            self._additional_capabilities = bool(caps[-2])", "            self._additional_capabilities = bool(caps[-1])"),
    M("second-request-unconditional", D, "        if response.additional_capabilities:\n            cmd = GetCapabilitiesCommand(True)", "        if True:\n            cmd = GetCapabilitiesCommand(True)"),
    # neutral
    M("n-rename-cursor", C, "caps", "recs", "S") if False else M("n-hoist-advance", C, """            # Advanced to next capability
            caps = caps[3+size:]

        # Check if there are additional capabilities""", """            # Advanced to next capability
            step = size + 3
            caps = caps[step:]

        # Check if there are additional capabilities""", "S"),
    M("n-empty-same-form", C, "            if size == 0:\n                caps = caps[3:]", "            if size == 0:\n                caps = caps[3+size:]", "S"),
    M("n-two-step-advance", C, """            # Advanced to next capability
            caps = caps[3+size:]

        # Check if there are additional capabilities""", """            # Advanced to next capability
            caps = caps[3:]
            caps = caps[size:]

        # Check if there are additional capabilities""", "S"),
]
# round 5 (C15.e): a response's capability dict is its own
CORPUS += [
    M("parsed-capabilities-cached-uncopied", C, "        self._parse_capabilities(payload)\n\n    @property\n    def raw_capabilities", "        self._parse_capabilities(payload)\n        CapabilitiesResponse._seen[bytes(payload)] = self._capabilities\n\n    @property\n    def raw_capabilities",
      also=[(C, "    def __init__(self, payload: memoryview) -> None:\n        super().__init__(payload)\n\n        self._capabilities = {}", "    _seen: dict = {}\n\n    def __init__(self, payload: memoryview) -> None:\n        super().__init__(payload)\n\n        self._capabilities = {}")]),
    M("n-parsed-capabilities-cached-as-copy", C, "        self._parse_capabilities(payload)\n\n    @property\n    def raw_capabilities", "        self._parse_capabilities(payload)\n        CapabilitiesResponse._seen[bytes(payload)] = dict(self._capabilities)\n\n    @property\n    def raw_capabilities", "S",
      also=[(C, "    def __init__(self, payload: memoryview) -> None:\n        super().__init__(payload)\n\n        self._capabilities = {}", "    _seen: dict = {}\n\n    def __init__(self, payload: memoryview) -> None:\n        super().__init__(payload)\n\n        self._capabilities = {}")]),
]
# round 7: response objects are not memoised (C15.e); nothing a getter reads is derived at construction time only (C15.f)
CORPUS += [
    M("fan-flag-precomputed", C, "        self._parse_capabilities(payload)\n\n    @property\n    def raw_capabilities", "        self._parse_capabilities(payload)\n        self._has_fan = any(k.startswith(\"fan_\") for k in self._capabilities)\n\n    @property\n    def raw_capabilities",
      also=[(C, "        if any(k.startswith(\"fan_\") for k in self._capabilities):", "        if self._has_fan:")]),
]
CORPUS += [
    M("response-with-other-id-returned", D, "            if response.id == response_id:\n                return response", "            if response.id != response_id:\n                return response"),
    M("capability-loop-stops-at-empty-record", C, "            if size == 0:\n                caps = caps[3:]\n                continue", "            if size == 0:\n                caps = caps[3:]\n                break"),
    M("additional-page-not-awaited", D, "            additional_response = await self._send_command_get_response_with_id(cmd, ResponseId.CAPABILITIES)", "            additional_response = self._send_command_get_response_with_id(cmd, ResponseId.CAPABILITIES)"),
]
# round 10: growth - a multi-value record read as a fixed window; a variadic merge
CORPUS += [
    M("window-read-past-record", "msmart/device/AC/command.py", "            # Fetch first cap value\n            value = caps[3]\n",
      "            if raw_id == 0x0230:\n                strips = caps[3:7]\n                self._capabilities[\"strips\"] = sum(strips)\n                caps = caps[3+size:]\n                continue\n\n            # Fetch first cap value\n            value = caps[3]\n"),
    M("n-window-read-inside-record", "msmart/device/AC/command.py", "            # Fetch first cap value\n            value = caps[3]\n",
      "            if raw_id == 0x0230 and size >= 4:\n                strips = caps[3:7]\n                self._capabilities[\"strips\"] = sum(strips)\n                caps = caps[3+size:]\n                continue\n\n            # Fetch first cap value\n            value = caps[3]\n", "S"),
    M("variadic-merge-earlier-page-wins", "msmart/device/AC/command.py",
      "    def merge(self, other: CapabilitiesResponse) -> None:\n        # Add other's capabilities to ours\n        self._capabilities.update(other._capabilities)\n",
      "    def merge(self, *others: CapabilitiesResponse) -> None:\n        for other in others:\n            self._capabilities = {**other._capabilities, **self._capabilities}\n"),
    M("n-variadic-merge-in-order", "msmart/device/AC/command.py",
      "    def merge(self, other: CapabilitiesResponse) -> None:\n        # Add other's capabilities to ours\n        self._capabilities.update(other._capabilities)\n",
      "    def merge(self, *others: CapabilitiesResponse) -> None:\n        for other in others:\n            self._capabilities = {**self._capabilities, **other._capabilities}\n", "S"),
]
# round 12: the supported-property set is rebuilt from the response
CORPUS += [
    M("supported-properties-partly-reset", "msmart/device/AC/device.py", "        self._supported_properties.clear()\n", "        self._supported_properties.difference_update(self._PROPERTY_MAP)\n"),
    M("n-supported-properties-rebound", "msmart/device/AC/device.py", "        self._supported_properties.clear()\n", "        self._supported_properties = set()\n", "S"),
]
