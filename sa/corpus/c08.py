from ..selftest import M

L = "msmart/lan.py"
B = "msmart/base_device.py"
SEND_LOOP = "        while retries > 0:\n            # Send the request"
CORPUS = [
    M("while-gt-1", L, SEND_LOOP, "        while retries > 1:\n            # Send the request"),
    M("break-removed", L, "                responses.append(await self._read())\n                break", "                responses.append(await self._read())"),
    M("no-final-raise", L, """                if retries > 1:
                    _LOGGER.debug("Read timeout. Resending to %s.",
                                  self._protocol.peer)
                    retries -= 1
                else:
                    self._disconnect()
                    raise TimeoutError("No response from host.") from e""", """                _LOGGER.debug("Read timeout. Resending to %s.",
                              self._protocol.peer)
                retries -= 1"""),
    M("extra-attempt", L, """                if retries > 1:
                    _LOGGER.debug("Read timeout. Resending to %s.",""", """                if retries > 0:
                    _LOGGER.debug("Read timeout. Resending to %s.","""),
    M("oserror-unmapped", L, "        except OSError as e:\n            raise ProtocolError(\"Connect failed.\") from e\n", ""),
    M("timeout-unmapped-connect", L, "        except (TimeoutError, asyncio.TimeoutError) as e:\n            raise TimeoutError(\"Connect timeout.\") from e\n        except OSError as e:\n            raise ProtocolError(\"Connect failed.\") from e",
      "        except ConnectionRefusedError as e:\n            raise ProtocolError(\"Connect failed.\") from e"),
    M("no-disconnect-on-timeout", L, "                    self._disconnect()\n                    raise TimeoutError(\"No response from host.\") from e", "                    raise TimeoutError(\"No response from host.\") from e"),
    M("no-disconnect-on-protocol-error", L, "                self._disconnect()\n                raise e", "                raise e"),
    M("cancel-reraised", L, "                self._disconnect()\n                raise TimeoutError(\"Read cancelled.\") from e", "                self._disconnect()\n                raise"),
    M("cancel-no-disconnect", L, "                _LOGGER.warning(\"Read cancelled. Disconnecting.\")\n                self._disconnect()", "                _LOGGER.warning(\"Read cancelled. Disconnecting.\")"),
    M("disconnect-keeps-object", L, "            self._protocol.disconnect()\n            self._protocol = None", "            self._protocol.disconnect()"),
    M("connect-stores-early", L, "        loop = asyncio.get_event_loop()\n        task = loop.create_connection(", "        self._protocol = protocol_class()\n        loop = asyncio.get_event_loop()\n        task = loop.create_connection("),
    M("write-ignores-closing", L, "        if not self.alive:\n            raise ProtocolError(\"Transport is closing or closed.\")\n", ""),
    M("alive-ignores-closing", L, "        if self._transport is None or self._transport.is_closing():\n            return False", "        if self._transport is None:\n            return False"),
    M("send-skips-alive-check", L, "        if not self._alive:\n            self._disconnect()\n            await self._connect()\n\n        # A protocol should exist at this point\n        assert self._protocol is not None\n\n        # Authenticate as needed",
      "        if self._protocol is None:\n            await self._connect()\n\n        # A protocol should exist at this point\n        assert self._protocol is not None\n\n        # Authenticate as needed"),
    M("device-timeout-uncaught", B, "        except TimeoutError as e:\n            _LOGGER.warning(\"Network timeout %s:%d: %s\", self.ip, self.port, e)\n", ""),
    M("device-protocol-uncaught", B, "        except ProtocolError as e:\n            _LOGGER.error(\"Network error %s:%d: %s\", self.ip, self.port, e)\n            return []\n", ""),
    M("auth-loop-gt-1", L, "        while retries > 0:\n            try:\n                await self._protocol.authenticate(token, key)", "        while retries > 1:\n            try:\n                await self._protocol.authenticate(token, key)"),
    M("auth-no-break", L, "                await self._protocol.authenticate(token, key)\n                break", "                await self._protocol.authenticate(token, key)"),
    M("resend-reencoded", L, "            self._protocol.write(packet)\n", "            self._protocol.write(_Packet.encode(self._device_id + retries, data))\n"),
    M("alive-true-without-protocol", L, "        if self._protocol is None or not self._protocol.alive:\n            return False", "        if self._protocol is not None and not self._protocol.alive:\n            return False"),
    # neutral
    M("n-while-ge-0", L, SEND_LOOP, "        while retries >= 0:\n            # Send the request", "S"),
    M("n-while-true", L, SEND_LOOP, "        while True:\n            # Send the request", "S"),
    M("n-decrement-form", L, """                    _LOGGER.debug("Read timeout. Resending to %s.",
                                  self._protocol.peer)
                    retries -= 1""", """                    _LOGGER.debug("Read timeout. Resending to %s.",
                                  self._protocol.peer)
                    retries = retries - 1""", "S"),
    M("n-swap-connect-handlers", L, """        except (TimeoutError, asyncio.TimeoutError) as e:
            raise TimeoutError("Connect timeout.") from e
        except OSError as e:
            raise ProtocolError("Connect failed.") from e""", """        except OSError as e:
            raise ProtocolError("Connect failed.") from e
        except (TimeoutError, asyncio.TimeoutError) as e:
            raise TimeoutError("Connect timeout.") from e""", "S"),
    M("n-ge-2", L, """                if retries > 1:
                    _LOGGER.debug("Read timeout. Resending to %s.",""", """                if retries >= 2:
                    _LOGGER.debug("Read timeout. Resending to %s.",""", "S"),
]
# round 3 (C08.t4): the reassembly premises are part of the exchange contract
CORPUS += [
    M("v3-size-from-untrimmed-buffer-imported", L, 'total_size = int.from_bytes(buf[2:4], "big") + 8', 'total_size = int.from_bytes(self._buffer[2:4], "big") + 8'),
]
# round 4 (C08.d): nothing dereferences the protocol object where it can be None
CORPUS += [
    M("alive-derefs-missing-protocol", L, "        if self._protocol is None or not self._protocol.alive:\n            return False",
      "        if not self._protocol.alive:\n            return False"),
    M("expiry-log-before-none-test", L, "        if self._protocol is None or not self._protocol.alive:\n            return False",
      "        _LOGGER.debug(\"Checking %s.\", self._protocol.peer)\n        if self._protocol is None or not self._protocol.alive:\n            return False"),
    M("n-none-test-split", L, "        if self._protocol is None or not self._protocol.alive:\n            return False",
      "        if self._protocol is None:\n            return False\n        if not self._protocol.alive:\n            return False", "S"),
    M("n-truthiness-guard", L, "        if self._protocol is None or not self._protocol.alive:\n            return False",
      "        if not (self._protocol and self._protocol.alive):\n            return False", "S"),
]
# round 5 (C08.e): a timeout of the read reaches the retry loop
CORPUS += [
    M("read-timeout-swallowed", L, "        return await asyncio.wait_for(self._queue.get(), timeout=timeout)",
      "        try:\n            return await asyncio.wait_for(self._queue.get(), timeout=timeout)\n        except (TimeoutError, asyncio.TimeoutError):\n            return b\"\""),
    M("read-without-timeout", L, "        return await asyncio.wait_for(self._queue.get(), timeout=timeout)", "        return await self._queue.get()"),
    M("n-read-timeout-logged", L, "        return await asyncio.wait_for(self._queue.get(), timeout=timeout)",
      "        try:\n            return await asyncio.wait_for(self._queue.get(), timeout=timeout)\n        except (TimeoutError, asyncio.TimeoutError):\n            _LOGGER.debug(\"Read timed out.\")\n            raise", "S"),
]
# round 6 (.await): a coroutine call whose result is dropped never runs
CORPUS += [
    M("connect-not-awaited", L, "        if not self._alive:\n            self._disconnect()\n            await self._connect()", "        if not self._alive:\n            self._disconnect()\n            self._connect()"),
    M("n-connect-awaited-via-name", L, "        if not self._alive:\n            self._disconnect()\n            await self._connect()", "        if not self._alive:\n            self._disconnect()\n            pending = self._connect()\n            await pending", "S"),
]
# round 7 (C08.d): a handshake is offered on a connection found alive and V3, or on a fresh one
CORPUS += [
    M("authenticate-reconnect-guard-wrong", L, "        if (not self._alive or not isinstance(self._protocol, _LanProtocolV3)):", "        if (not self._alive or isinstance(self._protocol, _LanProtocolV3)):"),
    M("authenticate-never-reconnects", L, "        if (not self._alive or not isinstance(self._protocol, _LanProtocolV3)):", "        if not isinstance(self._protocol, _LanProtocolV3):"),
]
# round 11: the credentials are cached in the atomic section in which the handshake succeeded
CORPUS += [
    M("credentials-cached-after-settle-sleep", L, """        # Update stored token and key if successful
        self._token = token
        self._key = key

        # Sleep briefly before requesting more data
        await asyncio.sleep(1)
""", """        # Sleep briefly before requesting more data
        await asyncio.sleep(1)

        # Update stored token and key if successful
        self._token = token
        self._key = key
"""),
    M("n-credentials-stored-in-other-order", L, "        self._token = token\n        self._key = key\n", "        self._key = key\n        self._token = token\n", "S"),
    M("n-abort-helper-in-send-loop", L, "                # TODO could add a fatal flag to exception to trigger disconnect\n                self._disconnect()\n                raise e",
      "                self._abort(\"protocol error\")\n                raise e", "S",
      also=[(L, "    def _disconnect(self) -> None:\n        if self._protocol:", "    def _abort(self, reason: str) -> None:\n        _LOGGER.debug(\"Aborting: %s\", reason)\n        self._disconnect()\n\n    def _disconnect(self) -> None:\n        if self._protocol:")]),
]
# F9 (fixed in /repo e41f534): a handshake abandoned by cancellation closes the connection - re-introduced, it must be reported again
CORPUS += [
    M("f9-cancelled-handshake-keeps-connection", L, """            except asyncio.CancelledError:
                # The response to the abandoned handshake is still in flight, don't reuse this connection
                _LOGGER.warning("Authentication cancelled. Disconnecting.")
                self._disconnect()
                raise
""", ""),
    M("f9-cancelled-handshake-only-logged", L, """                _LOGGER.warning("Authentication cancelled. Disconnecting.")
                self._disconnect()
                raise
""", """                _LOGGER.warning("Authentication cancelled.")
                raise
"""),
    M("n-f9-disconnect-before-log", L, """                _LOGGER.warning("Authentication cancelled. Disconnecting.")
                self._disconnect()
                raise
""", """                self._disconnect()
                _LOGGER.warning("Authentication cancelled. Disconnecting.")
                raise
""", "S"),
]
# round 12: a pending handshake's response is accepted whatever session state the connection holds
CORPUS += [
    M("handshake-response-refused-once-keyed", L, "            if not self._handshake_pending:\n                raise ProtocolError(\"Unexpected handshake response.\")",
      "            if not self._handshake_pending or self._local_key is not None:\n                raise ProtocolError(\"Unexpected handshake response.\")"),
]
