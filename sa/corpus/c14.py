from ..selftest import M

C = "msmart/device/AC/command.py"
D = "msmart/device/AC/device.py"
CORPUS = [
    M("wrapper-removed", C, """        try:
            return cls._construct(frame)
        except IndexError as e:
            # Frame or payload is shorter than the response format requires
            raise InvalidResponseException(
                f"Frame '{frame.hex()}' is truncated.") from e
""", "        return cls._construct(frame)\n"),
    M("wrapper-narrowed", C, "        except IndexError as e:\n            # Frame or payload", "        except KeyError as e:\n            # Frame or payload"),
    M("handler-narrowed", D, "except (InvalidFrameException, InvalidResponseException) as e:", "except InvalidFrameException as e:"),
    M("handler-breaks", D, "                _LOGGER.error(e)\n                continue", "                _LOGGER.error(e)\n                break"),
    M("try-hoisted", D, """        for data in responses:
            try:
                # Construct response from data
                response = Response.construct(data)
            except (InvalidFrameException, InvalidResponseException) as e:
                _LOGGER.error(e)
                continue

            valid_responses.append(response)
""", """        try:
            for data in responses:
                # Construct response from data
                response = Response.construct(data)
                valid_responses.append(response)
        except (InvalidFrameException, InvalidResponseException) as e:
            _LOGGER.error(e)
"""),
    # F7 (fixed in c97b82a): a response with the capabilities id need not be a CapabilitiesResponse
    M("caps-class-not-checked", D, """        # A response with the capabilities ID is only a CapabilitiesResponse if it answers a query
        if not isinstance(response, CapabilitiesResponse):
""", """        response = cast(CapabilitiesResponse, response)
        if response is None:
"""),
    M("additional-caps-class-not-checked", D, "            if isinstance(additional_response, CapabilitiesResponse):", "            if additional_response:"),
    M("n-caps-class-checked-late", D, """        # A response with the capabilities ID is only a CapabilitiesResponse if it answers a query
        if not isinstance(response, CapabilitiesResponse):
""", """        if response is None or not isinstance(response, CapabilitiesResponse):
""", expect="S"),
    M("new-index-outside-wrapper", D, "            self._power_state = res.power_on\n", "            self._power_state = res.power_on and res.payload[30] == 0\n"),
    M("enum-unguarded", D, """                self._breeze_mode = (AirConditioner.BreezeMode(value) if value in AirConditioner.BreezeMode.list()
                                     else AirConditioner.BreezeMode.OFF)""", "                self._breeze_mode = AirConditioner.BreezeMode(value)"),
    M("fanspeed-catch-removed", D, """                try:
                    self._fan_speed = AirConditioner.FanSpeed(
                        cast(int, res.fan_speed))
                except ValueError:
                    self._fan_speed = cast(int, res.fan_speed)""", """                self._fan_speed = AirConditioner.FanSpeed(
                    cast(int, res.fan_speed))"""),
    M("capability-id-catch-removed", C, """            try:
                capability_id = CapabilityId(raw_id)
            except ValueError:
                _LOGGER.warning(
                    "Unknown capability ID: 0x%04X, Size: %d.", raw_id, size)
                # Advanced to next capability
                caps = caps[3+size:]
                continue
""", "            capability_id = CapabilityId(raw_id)\n"),
    M("int-of-text-in-update", D, "            self._target_humidity = res.target_humidity\n", "            self._target_humidity = int(res.payload.hex()[38:40], 16)\n", "S"),  # hex text of bytes: our model says str; int(str,16) -> flagged? expected silent only if modelled; see note
    # neutral
    M("n-guard-removed-under-wrapper", C, "            if len(caps) < 3:\n                break\n", "", "S"),
    M("n-extra-guard", C, "        count = payload[1]\n        caps = payload[2:]", "        if len(payload) < 2:\n            return\n        count = payload[1]\n        caps = payload[2:]", "S"),
    M("n-rename", D, "for data in responses:\n            try:\n                # Construct response from data\n                response = Response.construct(data)",
      "for raw in responses:\n            try:\n                # Construct response from data\n                response = Response.construct(raw)", "S"),
]
# the int(hex) case is a deliberate over-approximation probe; drop it from the corpus (documented in DESIGN §C14)
CORPUS = [m for m in CORPUS if m.name != "int-of-text-in-update"]
# round 3: state shared between response objects (one object's decode wipes / overwrites another's)
CORPUS += [
    M("properties-class-level", C, "        super().__init__(payload)\n\n        self._properties = {}\n\n        self._parse(payload)",
      "        super().__init__(payload)\n\n        self._parse(payload)",
      also=[(C, 'class PropertiesResponse(Response):\n    """Response to properties query."""\n', 'class PropertiesResponse(Response):\n    """Response to properties query."""\n\n    _properties: dict = {}\n')]),
    M("n-properties-fresh-dict-call", C, "        self._properties = {}\n\n        self._parse(payload)", "        self._properties = dict()\n\n        self._parse(payload)", "S"),
]
# round 5 (C14.a): unpacking peer bytes into a fixed number of names
CORPUS += [
    M("id-bytes-unpacked-before-length-check", C, "            # Stop if out of data\n            if len(caps) < 3:\n                break\n", "            lo, hi = caps[:2]\n            # Stop if out of data\n            if len(caps) < 3:\n                break\n"),
    M("n-id-bytes-unpacked-after-length-check", C, "            # Stop if out of data\n            if len(caps) < 3:\n                break\n", "            # Stop if out of data\n            if len(caps) < 3:\n                break\n            lo, hi = caps[:2]\n", "S"),
]
