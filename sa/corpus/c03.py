from ..selftest import M

L = "msmart/lan.py"
CORPUS = [
    M("prefix-compare", L, "if Security.sign(bytes(packet[:-16])) != rx_hash:",
      "if Security.sign(bytes(packet[:-16]))[:8] != rx_hash[:8]:"),
    M("compare-removed", L, """            if Security.sign(bytes(packet[:-16])) != rx_hash:
                raise ProtocolError(
                    "Calculated and received MD5 digest do not match.")
""", ""),
    M("return-from-failing-branch", L, """            if Security.sign(bytes(packet[:-16])) != rx_hash:
                raise ProtocolError(
                    "Calculated and received MD5 digest do not match.")
""", """            frame = Security.decrypt_aes(encrypted_frame)
            if Security.sign(bytes(packet[:-16])) != rx_hash:
                return frame
"""),
    M("inverted", L, "if Security.sign(bytes(packet[:-16])) != rx_hash:", "if Security.sign(bytes(packet[:-16])) == rx_hash:"),
    M("wrong-class", L, """                raise ProtocolError(
                    "Calculated and received MD5 digest do not match.")""", """                raise ValueError(
                    "Calculated and received MD5 digest do not match.")"""),
    M("sign-fewer-bytes", L, "if Security.sign(bytes(packet[:-16])) != rx_hash:", "if Security.sign(bytes(packet[:40])) != rx_hash:"),
    M("sign-skip-header", L, "if Security.sign(bytes(packet[:-16])) != rx_hash:", "if Security.sign(bytes(packet[6:-16])) != rx_hash:"),
    M("payload-outside-signed", L, "encrypted_frame = packet[40:-16]", "encrypted_frame = data[40:]"),
    M("conditional-check", L, "if Security.sign(bytes(packet[:-16])) != rx_hash:",
      "if len(packet) > 100 and Security.sign(bytes(packet[:-16])) != rx_hash:"),
    # neutral rewrites
    M("n-swap-operands", L, "if Security.sign(bytes(packet[:-16])) != rx_hash:", "if rx_hash != Security.sign(bytes(packet[:-16])):", "S"),
    M("n-positive-form", L, """            if Security.sign(bytes(packet[:-16])) != rx_hash:
                raise ProtocolError(
                    "Calculated and received MD5 digest do not match.")

            # Decrypt frame
            try:
                return Security.decrypt_aes(encrypted_frame)
            except ValueError as e:
                raise ProtocolError("Failed to decrypt packet payload.") from e""", """            if Security.sign(bytes(packet[:-16])) == rx_hash:
                try:
                    return Security.decrypt_aes(encrypted_frame)
                except ValueError as e:
                    raise ProtocolError("Failed to decrypt packet payload.") from e
            raise ProtocolError(
                "Calculated and received MD5 digest do not match.")""", "S"),
    M("n-hoist-local", L, "if Security.sign(bytes(packet[:-16])) != rx_hash:",
      "calc = Security.sign(bytes(packet[:-16]))\n            ok = calc == rx_hash\n            if not ok:", "S"),
    M("n-guard-loosened", L, "if len(packet) < length:", "if len(packet) < length - 16:", "S"),
    M("n-rename", L, """            rx_hash = packet[-16:]

            # Check that received hash matches
            if Security.sign(bytes(packet[:-16])) != rx_hash:""", """            received = packet[-16:]

            # Check that received hash matches
            if Security.sign(bytes(packet[:-16])) != received:""", "S"),
]
# round 6: dropped `raise` (the exception object is built and discarded), asserts
CORPUS += [
    M("raise-dropped-truncated", L, "            if len(packet) < length:\n                raise ProtocolError(", "            if len(packet) < length:\n                ProtocolError("),
    M("assert-on-peer-length", L, "            packet = packet[:length]\n", "            packet = packet[:length]\n            assert len(packet) > 56\n"),
    M("n-assert-implied-length", L, "            packet = packet[:length]\n", "            packet = packet[:length]\n            assert len(packet) == length\n", "S"),
]
# round 7: the signature covers its whole argument (C03.a); nothing reaches the caller around the decoder (C03.e)
CORPUS += [
    M("sign-skips-last-byte", L, "        return md5(data + Security.SIGN_KEY).digest()", "        return md5(data[:-1] + Security.SIGN_KEY).digest()"),
    M("read-bypasses-decode-for-short", L, "        # Decode packet to frame\n        response = _Packet.decode(packet)", "        # Decode packet to frame\n        response = _Packet.decode(packet) if len(packet) > 56 else bytes()"),
    M("n-sign-through-helper", L, "        return md5(data + Security.SIGN_KEY).digest()", "        keyed = data + Security.SIGN_KEY\n        return md5(keyed).digest()", "S"),
]
# round 8 (C03.e): the drain swallows no rejection
CORPUS += [
    M("drain-swallows-protocol-error", L, "        except asyncio.QueueEmpty:\n            pass\n\n    async def send(", "        except (asyncio.QueueEmpty, ProtocolError):\n            pass\n\n    async def send("),
]
