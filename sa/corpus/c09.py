from ..selftest import M

L = "msmart/lan.py"
B = "msmart/base_device.py"
CORPUS = [
    M("f2a-returns", L, """            try:
                return Security.decrypt_aes(encrypted_frame)
            except ValueError as e:
                raise ProtocolError("Failed to decrypt packet payload.") from e
""", "            return Security.decrypt_aes(encrypted_frame)\n"),
    M("f2b-returns", L, """        try:
            decrypted_payload = Security.decrypt_aes_cbc(
                self._local_key, payload)
        except ValueError as e:
            raise ProtocolError("Failed to decrypt packet payload.") from e
""", "        decrypted_payload = Security.decrypt_aes_cbc(self._local_key, payload)\n"),
    M("f2c-returns", L, """        if self._local_key is None:
            raise ProtocolError(
                "Encrypted response received before authentication.")
""", "        assert self._local_key is not None\n"),
    M("explicit-valueerror", L, '            raise ProtocolError(f"Unexpected type: {packet_type}")', '            raise ValueError(f"Unexpected type: {packet_type}")'),
    M("producer-invariant-lost", L, 'total_size = int.from_bytes(buf[2:4], "big") + 8', 'total_size = int.from_bytes(buf[2:4], "big")',
      also=[(L, "                if len(buf) < 6:\n                    _LOGGER.warning(\n                        \"Peer %s: Buffer too short.", "                if len(buf) < 4:\n                    _LOGGER.warning(\n                        \"Peer %s: Buffer too short.")]),
    M("send-handler-narrowed", L, "            except ProtocolError as e:\n                # Disconnect on protocol errors and reraise",
      "            except AuthenticationError as e:\n                # Disconnect on protocol errors and reraise", "S"),  # still ProtocolError escaping: allowed
    M("device-catch-narrowed", B, "        except ProtocolError as e:\n            _LOGGER.error(\"Network error", "        except AuthenticationError as e:\n            _LOGGER.error(\"Network error"),
    M("device-auth-catch-narrowed", B, "        except (ProtocolError, TimeoutError) as e:\n            raise AuthenticationError(e) from e",
      "        except ProtocolError as e:\n            raise AuthenticationError(e) from e"),
    M("connect-oserror-unmapped", L, "        except OSError as e:\n            raise ProtocolError(\"Connect failed.\") from e\n", ""),
    M("unguarded-index-in-decode", L, "            length = int.from_bytes(packet[4:6], \"little\")", "            length = packet[4] | (packet[5] << 8)",
      also=[(L, "            if len(packet) < 6:\n                raise ProtocolError(f\"Packet is too short: {packet.hex()}\")\n", "")]),
    M("local-key-len-check-removed", L, """        if len(data) != 64:
            raise AuthenticationError(
                "Invalid data length for key handshake.")
""", ""),
    M("transport-cleared", L, "        _LOGGER.debug(\"Disconnecting from %s.\", self.peer)\n        self._transport.close()",
      "        _LOGGER.debug(\"Disconnecting from %s.\", self.peer)\n        self._transport.close()\n        self._transport = None"),
    # neutral
    M("n-log-hex", L, "        if packet[4] != 0x20:", "        _LOGGER.debug(\"type %s\", packet[:6].hex())\n        if packet[4] != 0x20:", "S"),
    M("n-extra-guard", L, "        if packet[4] != 0x20:", "        if len(packet) < 8:\n            raise ProtocolError(\"short\")\n        if packet[4] != 0x20:", "S"),
    M("n-index-guarded", L, "            length = int.from_bytes(packet[4:6], \"little\")", "            length = packet[4] | (packet[5] << 8)", "S"),
    M("n-swap-connect-handlers", L, """        except (TimeoutError, asyncio.TimeoutError) as e:
            raise TimeoutError("Connect timeout.") from e
        except OSError as e:
            raise ProtocolError("Connect failed.") from e""", """        except OSError as e:
            raise ProtocolError("Connect failed.") from e
        except (TimeoutError, asyncio.TimeoutError) as e:
            raise TimeoutError("Connect timeout.") from e""", "S"),
]
# round 3: recursion whose depth the peer chooses
CORPUS += [
    M("read-skips-recursively", L, "        with memoryview(packet) as packet_mv:\n            return self._process_packet(packet_mv)",
      "        if len(packet) > 5 and packet[5] & 0xF == 0x1 and not self._handshake_pending:\n            return await self.read(timeout=timeout)\n\n        with memoryview(packet) as packet_mv:\n            return self._process_packet(packet_mv)"),
]
# round 6 (.raise): an exception that is constructed but not raised reports nothing
CORPUS += [
    M("raise-dropped-send-dead", L, "        if not self.alive:\n            raise ProtocolError(\"Transport is closing or closed.\")", "        if not self.alive:\n            ProtocolError(\"Transport is closing or closed.\")"),
    M("raise-dropped-error-packet", L, "            raise ProtocolError(\"Error packet received.\")", "            ProtocolError(\"Error packet received.\")"),
    M("read-not-awaited", L, "        packet = await self._protocol.read(**kwargs)", "        packet = self._protocol.read(**kwargs)"),
    M("n-read-awaited-later", L, "        packet = await self._protocol.read(**kwargs)", "        pending = self._protocol.read(**kwargs)\n        packet = await pending", "S"),
]
# round 9 (growth): a settable read timeout is fine when the setter keeps it positive (class invariant), not otherwise
CORPUS += [
    M("n-validated-response-timeout", L, "        self._max_connection_lifetime = None\n", "        self._max_connection_lifetime = None\n        self._response_timeout = 2\n", "S",
      also=[(L, "                responses.append(await self._read())", "                responses.append(await self._read(timeout=self._response_timeout))"),
            (L, "    def _disconnect(self) -> None:", "    def set_response_timeout(self, seconds: float) -> None:\n        if not seconds > 0:\n            raise ValueError(\"positive\")\n        self._response_timeout = seconds\n\n    def _disconnect(self) -> None:")]),
    M("unvalidated-response-timeout", L, "        self._max_connection_lifetime = None\n", "        self._max_connection_lifetime = None\n        self._response_timeout = 2\n",
      also=[(L, "                responses.append(await self._read())", "                responses.append(await self._read(timeout=self._response_timeout))"),
            (L, "    def _disconnect(self) -> None:", "    def set_response_timeout(self, seconds: float) -> None:\n        self._response_timeout = seconds\n\n    def _disconnect(self) -> None:")]),
]
# round 10: growth that reads more of a packet
CORPUS += [
    M("error-reason-decoded-strictly", "msmart/lan.py", '            raise ProtocolError("Error packet received.")',
      '            reason = packet[8:].tobytes().rstrip(b"\\x00")\n            raise ProtocolError("Error packet received: " + reason.decode("ascii"))'),
    M("n-error-reason-as-hex", "msmart/lan.py", '            raise ProtocolError("Error packet received.")',
      '            reason = packet[8:].tobytes().rstrip(b"\\x00")\n            raise ProtocolError("Error packet received: " + reason.hex())', "S"),
]
# round 11: a predicate that depends on the transport's state is peer-decided; asserting it after an await is an AssertionError the peer can cause
CORPUS += [
    M("authenticated-requires-alive", "msmart/lan.py", "        if datetime.now(timezone.utc) > self._local_key_expiration:\n            _LOGGER.debug(\"Authentication with %s has expired.\", self.peer)",
      "        if not self.alive:\n            return False\n\n        if datetime.now(timezone.utc) > self._local_key_expiration:\n            _LOGGER.debug(\"Authentication with %s has expired.\", self.peer)"),
    M("connect-stores-protocol-before-connecting", "msmart/lan.py", "        loop = asyncio.get_event_loop()\n        task = loop.create_connection(", "        self._protocol = protocol_class()\n        loop = asyncio.get_event_loop()\n        task = loop.create_connection("),
]
