from ..selftest import M

C = "msmart/device/AC/command.py"
D = "msmart/device/AC/device.py"
CORPUS = [
    M("power-mask", C, "        self.power_on = bool(payload[1] & 0x1)", "        self.power_on = bool(payload[1] & 0x3)"),
    M("temp-mask", C, "        self.target_temperature = (payload[2] & 0xF) + 16.0", "        self.target_temperature = (payload[2] & 0x1F) + 16.0"),
    M("temp-offset", C, "        self.target_temperature = (payload[2] & 0xF) + 16.0", "        self.target_temperature = (payload[2] & 0xF) + 17.0"),
    M("half-bit", C, "        self.target_temperature += 0.5 if payload[2] & 0x10 else 0.0\n        self.operational_mode", "        self.target_temperature += 0.5 if payload[2] & 0x20 else 0.0\n        self.operational_mode"),
    M("mode-shift", C, "        self.operational_mode = (payload[2] >> 5) & 0x7", "        self.operational_mode = (payload[2] >> 4) & 0x7"),
    M("mode-mask", C, "        self.operational_mode = (payload[2] >> 5) & 0x7", "        self.operational_mode = (payload[2] >> 5) & 0x3"),
    M("fan-index", C, "        self.fan_speed = payload[3]", "        self.fan_speed = payload[4]"),
    M("fan-masked", C, "        self.fan_speed = payload[3]", "        self.fan_speed = payload[3] & 0x3F"),
    M("swing-mask", C, "        self.swing_mode = payload[7] & 0xF", "        self.swing_mode = payload[7] & 0x7"),
    M("swing-wide-mask", C, "        self.swing_mode = payload[7] & 0xF", "        self.swing_mode = payload[7] & 0x3F"),
    M("turbo-bit", C, "        self.turbo = bool(payload[8] & 0x20)", "        self.turbo = bool(payload[8] & 0x10)"),
    M("turbo-alt-dropped", C, "        self.turbo |= bool(payload[10] & 0x2)\n", ""),
    M("eco-bit", C, "        self.eco = bool(payload[9] & 0x10)", "        self.eco = bool(payload[9] & 0x80)"),
    M("aux-bit", C, "        self.aux_heat = bool(payload[9] & 0x08)", "        self.aux_heat = bool(payload[9] & 0x18)"),
    M("sleep-fahrenheit-swapped", C, "        self.sleep = bool(payload[10] & 0x1)", "        self.sleep = bool(payload[10] & 0x4)"),
    M("nibbles-swapped", C, "            payload[11], (payload[15] & 0xF) / 10, self.fahrenheit)", "            payload[11], (payload[15] >> 4) / 10, self.fahrenheit)"),
    M("indoor-outdoor-swapped", C, "            payload[12], (payload[15] >> 4) / 10, self.fahrenheit)", "            payload[11], (payload[15] >> 4) / 10, self.fahrenheit)"),
    M("tenths-scale", C, "            payload[11], (payload[15] & 0xF) / 10, self.fahrenheit)", "            payload[11], (payload[15] & 0xF) / 100, self.fahrenheit)"),
    M("sentinel-inverted", C, "        if data == 0xFF:\n            return None", "        if data != 0xFF:\n            return None"),
    M("sentinel-removed", C, "        if data == 0xFF:\n            return None\n", ""),
    M("sentinel-zero-too", C, "        if data == 0xFF:\n            return None", "        if data == 0xFF or data == 0:\n            return None"),
    M("int-dropped-in-tenths-leaf", C, "            return int(temperature) + (decimals if temperature >= 0 else -decimals)", "            return temperature + (decimals if temperature >= 0 else -decimals)"),
    M("sign-lost", C, "            return int(temperature) + (decimals if temperature >= 0 else -decimals)", "            return int(temperature) + decimals"),
    M("temp-formula", C, "        temperature = (data - 50) / 2", "        temperature = (data - 40) / 2"),
    M("temp-formula-scale", C, "        temperature = (data - 50) / 2", "        temperature = (data - 50) / 4"),
    M("fahrenheit-uses-tenths", C, "        if not fahrenheit and decimals:", "        if decimals:", "S"),   # still within one degree; Celsius clause unchanged
    M("alt-offset", C, "            self.target_temperature = target_temperature_alt + 12", "            self.target_temperature = target_temperature_alt + 13"),
    M("alt-mask", C, "        target_temperature_alt = payload[13] & 0x1F", "        target_temperature_alt = payload[13] & 0x3F"),
    M("alt-half-lost", C, "            self.target_temperature = target_temperature_alt + 12\n            self.target_temperature += 0.5 if payload[2] & 0x10 else 0.0", "            self.target_temperature = target_temperature_alt + 12"),
    M("filter-bit", C, "        self.filter_alert = bool(payload[13] & 0x20)", "        self.filter_alert = bool(payload[13] & 0x40)"),
    M("display-const", C, "        self.display_on = (payload[14] != 0x70)", "        self.display_on = (payload[14] != 0x60)"),
    M("display-inverted", C, "        self.display_on = (payload[14] != 0x70)", "        self.display_on = (payload[14] == 0x70)"),
    M("humidity-guard-removed", C, "        if len(payload) < 20:\n            return\n", ""),
    M("humidity-guard-loose", C, "        if len(payload) < 20:\n            return\n", "        if len(payload) < 19:\n            return\n"),
    M("freeze-guard-removed", C, "        if len(payload) < 22:\n            return\n", ""),
    M("humidity-mask", C, "        self.target_humidity = payload[19] & 0x7F", "        self.target_humidity = payload[19] & 0x3F"),
    M("humidity-invented", C, "        self.target_humidity = None\n", "        self.target_humidity = 40\n"),
    M("freeze-bit", C, "        self.freeze_protection = bool(payload[21] & 0x80)", "        self.freeze_protection = bool(payload[21] & 0x40)"),
    M("follow-me-bit", C, "        self.follow_me = bool(payload[8] & 0x80)", "        self.follow_me = bool(payload[8] & 0x40)"),
    M("update-swaps-turbo-sleep", D, "            self._turbo = res.turbo", "            self._turbo = res.sleep"),
    M("update-drops-field", D, "            self._follow_me = res.follow_me\n", ""),
    M("update-aux-tree", D, "            if res.independent_aux_heat:\n                self._aux_mode = AirConditioner.AuxHeatMode.AUX_ONLY", "            if res.aux_heat:\n                self._aux_mode = AirConditioner.AuxHeatMode.AUX_ONLY"),
    M("update-fan-no-fallback", D, """                except ValueError:
                    self._fan_speed = cast(int, res.fan_speed)""", """                except ValueError:
                    self._fan_speed = AirConditioner.FanSpeed.AUTO"""),
    M("update-mode-enum", D, "                AirConditioner.OperationalMode.get_from_value(res.operational_mode))", "                AirConditioner.OperationalMode.get_from_value(res.swing_mode))"),
    M("getter-wrong-attr", D, "    def eco(self) -> Optional[bool]:\n        return self._eco", "    def eco(self) -> Optional[bool]:\n        return self._turbo"),
    M("check-and-to-or", C, "        if payload_crc != payload[-1] and payload_checksum != payload[-1]:", "        if payload_crc != payload[-1] or payload_checksum != payload[-1]:"),
    M("check-crc-only", C, "        if payload_crc != payload[-1] and payload_checksum != payload[-1]:", "        if payload_crc != payload[-1]:"),
    # neutral
    M("n-sentinel-ge", C, "        if data == 0xFF:\n            return None", "        if data >= 0xFF:\n            return None", "S"),
    M("n-bool-cmp", C, "        self.power_on = bool(payload[1] & 0x1)", "        self.power_on = (payload[1] & 0x1) != 0", "S"),
    M("n-shift-mask-order", C, "        self.operational_mode = (payload[2] >> 5) & 0x7", "        self.operational_mode = (payload[2] & 0xE0) >> 5", "S"),
    M("n-temp-one-expr", C, "        self.target_temperature = (payload[2] & 0xF) + 16.0\n        self.target_temperature += 0.5 if payload[2] & 0x10 else 0.0",
      "        self.target_temperature = (payload[2] & 0xF) + 16.0 + (0.5 if payload[2] & 0x10 else 0.0)", "S"),
    M("n-turbo-or", C, "        self.turbo = bool(payload[8] & 0x20)", "        self.turbo = bool(payload[8] & 0x20) or False", "S"),
]
# round 5 (C11.d): every way through the StateResponse branch stores every attribute
CORPUS += [
    M("state-update-skipped-when-same-power", D, "            self._power_state = res.power_on\n", "            if res.power_on == self._power_state and res.fan_speed == self._fan_speed:\n                return\n            self._power_state = res.power_on\n"),
    M("n-state-update-logged-first", D, "            self._power_state = res.power_on\n", "            changed = res.power_on != self._power_state\n            self._power_state = res.power_on\n            if changed:\n                _LOGGER.debug(\"Power state changed.\")\n", "S"),
]
# round 6 (C11.d): the custom fan speed fallback must catch what FanSpeed(<unknown>) raises
CORPUS += [
    M("fan-handler-wrong-exception", D, "                except ValueError:\n                    self._fan_speed = cast(int, res.fan_speed)", "                except TypeError:\n                    self._fan_speed = cast(int, res.fan_speed)"),
    M("n-fan-handler-wider", D, "                except ValueError:\n                    self._fan_speed = cast(int, res.fan_speed)", "                except (ValueError, TypeError):\n                    self._fan_speed = cast(int, res.fan_speed)", "S"),
]
# round 7 (C11.e): the constructor parses every payload of reportable length
CORPUS += [
    M("constructor-min-length-17", C, "        self.independent_aux_heat = None\n\n        self._parse(payload)", "        self.independent_aux_heat = None\n\n        if len(payload) < 17:\n            raise InvalidResponseException(\"truncated\")\n        self._parse(payload)"),
    M("n-constructor-min-length-16", C, "        self.independent_aux_heat = None\n\n        self._parse(payload)", "        self.independent_aux_heat = None\n\n        if len(payload) < 16:\n            raise InvalidResponseException(\"truncated\")\n        self._parse(payload)", "S"),
]
# round 8 (C11.d): unknown fan speeds raise (no _missing_ hook); refresh applies every response
CORPUS += [
    M("missing-hook-returns-default", "msmart/utils.py", "    @classmethod\n    def list(cls)", "    @classmethod\n    def _missing_(cls, value):\n        return cls.DEFAULT\n\n    @classmethod\n    def list(cls)"),
    M("refresh-skips-unchanged-state", D, "        for response in responses:\n            self._update_state(response)", "        for response in responses:\n            if isinstance(response, StateResponse) and response.payload == getattr(self, \"_last\", None):\n                continue\n            self._update_state(response)"),
]
# round 10: growth - a new field read past the established length; a subclass branch behind its base class
CORPUS += [
    M("new-field-read-past-minimum", "msmart/device/AC/command.py", "        self.display_on = (payload[14] != 0x70)\n",
      "        self.display_on = (payload[14] != 0x70)\n        self.error_code = payload[16] if (payload[1] & 0x80) else 0\n"),
    M("n-new-field-read-guarded", "msmart/device/AC/command.py", "        self.display_on = (payload[14] != 0x70)\n",
      "        self.display_on = (payload[14] != 0x70)\n        self.error_code = payload[16] if len(payload) > 16 else None\n", "S"),
    M("n-new-field-read-after-length-test", "msmart/device/AC/command.py", "        self.freeze_protection = bool(payload[21] & 0x80)\n",
      "        self.freeze_protection = bool(payload[21] & 0x80)\n        n = len(payload)\n        if n >= 24:\n            self.error_code = payload[23]\n", "S"),
    M("subclass-branch-behind-base", "msmart/device/AC/device.py", "        elif isinstance(res, PropertiesResponse):",
      "        elif isinstance(res, _ShortState):\n            self._power_state = res.power_on\n        elif isinstance(res, PropertiesResponse):",
      also=[("msmart/device/AC/device.py", "class AirConditioner(Device):", "class _ShortState(StateResponse):\n    pass\n\n\nclass AirConditioner(Device):")]),
]
# round 11: the frames of an exchange come back in arrival order (the latest report wins)
CORPUS += [
    M("unsolicited-frames-after-the-reply", "msmart/lan.py", "        return responses\n\n\nclass Security:", "        return responses[-1:] + responses[:-1]\n\n\nclass Security:"),
]
