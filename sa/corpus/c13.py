from ..selftest import M

C = "msmart/device/AC/command.py"
D = "msmart/device/AC/device.py"
F = "msmart/frame.py"
CORPUS = [
    M("frame-validate-removed", C, "            # Validate the frame\n            Frame.validate(frame_mv)\n", ""),
    M("frame-validate-inverted", F, "        if checksum != frame[-1]:", "        if checksum == frame[-1]:"),
    M("frame-checksum-range", F, "        checksum = Frame.checksum(frame[1:-1])", "        checksum = Frame.checksum(frame[2:-1])"),
    M("frame-validate-no-raise", F, "        if checksum != frame[-1]:\n            raise InvalidFrameException(", "        if checksum != frame[-1]:\n            print(", ),
    M("body-never-rejects", C, "        if payload_crc != payload[-1] and payload_checksum != payload[-1]:", "        if payload_crc != payload[-1] and payload_checksum != payload[-1] and False:"),
    M("body-crc-range", C, "        payload_crc = crc8.calculate(payload[0:-1])", "        payload_crc = crc8.calculate(payload[1:-1])"),
    M("body-compare-wrong-byte", C, "        if payload_crc != payload[-1] and payload_checksum != payload[-1]:", "        if payload_crc != payload[-2] and payload_checksum != payload[-1]:"),
    M("exemption-widened", C, "            if response_class != PropertiesResponse:", "            if response_class not in [PropertiesResponse, StateResponse]:"),
    M("exemption-keyed-on-id", C, "            if response_class != PropertiesResponse:", "            if response_id < 0xC0:"),
    M("validate-dropped", C, "            if response_class != PropertiesResponse:\n                Response.validate(frame_mv[10:-1])\n", ""),
    M("exempt-class-for-state", C, "            if response_id == ResponseId.STATE:\n                response_class = StateResponse", "            if response_id == ResponseId.STATE:\n                response_class = PropertiesResponse"),
    M("validated-range-drift", C, "                Response.validate(frame_mv[10:-1])", "                Response.validate(frame_mv[10:-2])"),
    M("online-from-raw", D, "        self._online = len(responses) > 0", "        self._online = True"),
    M("supported-from-raw", D, "        self._supported = len(valid_responses) > 0", "        self._supported = len(responses) > 0"),
    M("append-in-handler", D, "                _LOGGER.error(e)\n                continue", "                _LOGGER.error(e)\n                valid_responses.append(Response(memoryview(data[10:-2])))\n                continue"),
    M("update-from-raw", D, "        # Update state from responses\n        for response in responses:\n            self._update_state(response)",
      "        # Update state from responses\n        for response in responses:\n            self._update_state(response)\n        self._update_state(StateResponse(memoryview(bytes(24))))"),
    # neutral / stricter
    M("n-and-to-or-stricter", C, "        if payload_crc != payload[-1] and payload_checksum != payload[-1]:", "        if payload_crc != payload[-1] or payload_checksum != payload[-1]:", "S"),
    M("n-exemption-removed-stricter", C, "            if response_class != PropertiesResponse:\n                Response.validate(frame_mv[10:-1])", "            Response.validate(frame_mv[10:-1])", "S"),
    M("n-demorgan", C, "        if payload_crc != payload[-1] and payload_checksum != payload[-1]:", "        if not (payload_crc == payload[-1] or payload_checksum == payload[-1]):", "S"),
    M("n-nested-ifs", C, "        if payload_crc != payload[-1] and payload_checksum != payload[-1]:\n            raise", "        if payload_crc != payload[-1]:\n          if payload_checksum != payload[-1]:\n            raise", "S"),
    M("n-is-not", C, "            if response_class != PropertiesResponse:", "            if response_class is not PropertiesResponse:", "S"),
    M("n-hoist-body", C, "                Response.validate(frame_mv[10:-1])", "                body = frame_mv[10:-1]\n                Response.validate(body)", "S"),
]
# round 4: `online` kept as a flag next to the list (flag_tracks_list)
_COMP = """        responses = [
            resp
            for cmd in commands
            for resp in await self._send_command_get_responses(cmd)
        ]

        # Device is online if any response received
        self._online = len(responses) > 0
"""
CORPUS += [
    M("online-flag-per-command", D, _COMP, """        online = False
        responses = []
        for cmd in commands:
            online = True
            for resp in await self._send_command_get_responses(cmd):
                responses.append(resp)

        self._online = online
"""),
    M("online-flag-never-lowered", D, _COMP, """        online = self._online
        responses = []
        for cmd in commands:
            for resp in await self._send_command_get_responses(cmd):
                responses.append(resp)
                online = True

        self._online = online
"""),
    M("n-online-flag-per-response", D, _COMP, """        online = False
        responses = []
        for cmd in commands:
            for resp in await self._send_command_get_responses(cmd):
                responses.append(resp)
                online = True

        self._online = online
""", "S"),
]
# round 7 (C13.c): what is validated is what arrived
CORPUS += [
    M("frames-trimmed-to-length-byte", "msmart/base_device.py", "        return responses\n", "        return [r[:r[1] + 1] if len(r) > 1 else r for r in responses]\n"),
]
CORPUS += [
    M("supported-for-empty-exchange", D, "        self._supported = len(valid_responses) > 0", "        self._supported = len(valid_responses) >= 0"),
]
# round 8 (C13.c): the operations store no exposed state themselves
CORPUS += [
    M("capabilities-reset-before-query", D, "        # Send capabilities request and get a response\n        cmd = GetCapabilitiesCommand()", "        self._supported_rate_selects = [AirConditioner.RateSelect.OFF]\n        # Send capabilities request and get a response\n        cmd = GetCapabilitiesCommand()"),
]
# round 10: growth - an offline tolerance that ignores this refresh's responses
CORPUS += [
    M("online-tolerates-no-valid-response", "msmart/device/AC/device.py", "        self._online = len(responses) > 0\n",
      "        self._online = len(responses) > 0 or (self._online and self._supported)\n"),
    M("n-online-bool-of-responses", "msmart/device/AC/device.py", "        self._online = len(responses) > 0\n",
      "        self._online = bool(len(responses))\n", "S"),
]
