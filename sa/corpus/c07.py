from ..selftest import M

L = "msmart/lan.py"
AUTHBLOCK = """        if (isinstance(self._protocol, _LanProtocolV3)
                and not self._protocol.authenticated):
            await self.authenticate()

            # Protocol should be authenticated now
            assert self._protocol.authenticated
"""
CORPUS = [
    M("auth-call-removed", L, AUTHBLOCK, ""),
    M("auth-only-first-time", L, AUTHBLOCK, "        if isinstance(self._protocol, _LanProtocolV3) and self._token is None:\n            await self.authenticate()\n"),
    M("counter-step-2", L, "        self._packet_id += 1\n", "        self._packet_id += 2\n"),
    M("counter-mask-20bit", L, "        self._packet_id &= 0xFFF  # Mask to 12 bits", "        self._packet_id &= 0xFFFFF  # Mask to 20 bits"),
    M("counter-mask-removed", L, "        self._packet_id &= 0xFFF  # Mask to 12 bits\n", ""),
    M("counter-mask-not-pow2", L, "        self._packet_id &= 0xFFF  # Mask to 12 bits", "        self._packet_id &= 0xFFE  # Mask"),
    M("key-guard-removed", L, """        if self._local_key is None:
            raise ProtocolError("Protocol has not been authenticated.")
""", ""),
    M("key-guard-wrong-class", L, """        if self._local_key is None:
            raise ProtocolError("Protocol has not been authenticated.")""", """        if self._local_key is None:
            raise RuntimeError("Protocol has not been authenticated.")"""),
    M("factory-reuses-protocol", L, "            lambda: protocol_class(), self._ip, self._port)  # pylint: disable=unnecessary-lambda", "            lambda: self._last_protocol, self._ip, self._port)  # pylint: disable=unnecessary-lambda"),
    M("expiry-compare-flipped", L, "        if datetime.now(timezone.utc) > self._local_key_expiration:", "        if datetime.now(timezone.utc) < self._local_key_expiration:"),
    M("expiry-check-removed", L, """        if datetime.now(timezone.utc) > self._local_key_expiration:
            _LOGGER.debug("Authentication with %s has expired.", self.peer)
            return False
""", ""),
    M("expiry-24h", L, "    AUTHENTICATION_EXPIRATION = timedelta(hours=12)", "    AUTHENTICATION_EXPIRATION = timedelta(hours=24)"),
    M("conn-expiry-flipped", L, "        if self._connection_expiration and datetime.now(timezone.utc) > self._connection_expiration:", "        if self._connection_expiration and datetime.now(timezone.utc) < self._connection_expiration:"),
    M("conn-expiry-not-set", L, "        if self._max_connection_lifetime:\n            self._connection_expiration = datetime.now(\n                timezone.utc) + self._max_connection_lifetime\n", ""),
    M("class-level-key", L, "    AUTHENTICATION_EXPIRATION = timedelta(hours=12)\n", "    AUTHENTICATION_EXPIRATION = timedelta(hours=12)\n    _local_key = None\n",
      also=[(L, "        self._local_key = None\n        self._local_key_expiration = None\n        self._handshake_pending", "        self._local_key_expiration = None\n        self._handshake_pending")]),
    M("packet-id-not-reset", L, "        self._packet_id = 0\n        self._buffer = bytearray(0)", "        self._buffer = bytearray(0)", also=[(L, "    class PacketType(IntEnum):", "    _packet_id = 0\n\n    class PacketType(IntEnum):")]),
    M("second-data-write-site", L, "        # Sleep briefly before requesting more data\n        await asyncio.sleep(1)", "        self._protocol.write(b\"\")\n        await asyncio.sleep(1)"),
    M("encoder-fixed-id", L, "            packet = self._encode_encrypted_request(self._packet_id, data)", "            packet = self._encode_encrypted_request(0, data)"),
    M("authenticated-ignores-key", L, "        if self._local_key is None or self._local_key_expiration is None:\n            return False", "        if self._local_key_expiration is None:\n            return False"),
    M("version-selection", L, "        protocol_class = _LanProtocolV3 if self._protocol_version == 3 else _LanProtocol", "        protocol_class = _LanProtocolV3 if self._protocol_version >= 2 else _LanProtocol"),
    # neutral
    M("n-mod-1000", L, "        self._packet_id &= 0xFFF  # Mask to 12 bits", "        self._packet_id %= 0x1000  # 12 bits", "S"),
    M("n-one-statement", L, "        self._packet_id += 1\n        self._packet_id &= 0xFFF  # Mask to 12 bits", "        self._packet_id = (self._packet_id + 1) & 0xFFF", "S"),
    M("n-ge-expiry", L, "        if datetime.now(timezone.utc) > self._local_key_expiration:", "        if datetime.now(timezone.utc) >= self._local_key_expiration:", "S"),
    M("n-nested-if", L, AUTHBLOCK, "        if isinstance(self._protocol, _LanProtocolV3):\n            if not self._protocol.authenticated:\n                await self.authenticate()\n", "S"),
    M("n-16bit-mask", L, "        self._packet_id &= 0xFFF  # Mask to 12 bits", "        self._packet_id &= 0xFFFF  # Mask to 16 bits", "S"),
]
# round 6 (C07.c): the handshake request carries the counter as 2 bytes big-endian, like the encrypted request
CORPUS += [
    M("handshake-counter-reversed", L, '        payload = packet_id.to_bytes(2, "big") + data\n\n        return header + payload', '        payload = packet_id.to_bytes(2, "big")[::-1] + data\n\n        return header + payload'),
    M("handshake-counter-one-byte", L, '        payload = packet_id.to_bytes(2, "big") + data\n\n        return header + payload', '        payload = bytes([0, packet_id & 0xFF]) + data\n\n        return header + payload'),
    M("n-handshake-counter-struct", L, '        payload = packet_id.to_bytes(2, "big") + data\n\n        return header + payload', '        payload = struct.pack(">H", packet_id) + data\n\n        return header + payload', "S"),
]
# round 7 (C07.a): an `assert authenticated` is not the handshake
CORPUS += [
    M("reauthentication-dropped-assert-kept", L, "            await self.authenticate()\n\n            # Protocol should be authenticated now", "            # Protocol should be authenticated now"),
]
# round 8 (C07.e): one exchange at a time per connection
CORPUS += [
    M("refresh-gathers-sends", "msmart/device/AC/device.py", "        responses = [\n            resp\n            for cmd in commands\n            for resp in await self._send_command_get_responses(cmd)\n        ]",
      "        import asyncio\n        results = await asyncio.gather(*(self._send_command_get_responses(cmd) for cmd in commands))\n        responses = [resp for result in results for resp in result]"),
]
# round 11: the counter belongs to the connection, not to the handshake
CORPUS += [
    M("counter-restarts-with-handshake", L, "        # Flush any existing data from the queue\n        self._flush()\n\n        try:\n            self._handshake_pending = True",
      "        # Flush any existing data from the queue\n        self._flush()\n        self._packet_id = 0\n\n        try:\n            self._handshake_pending = True"),
    M("lifetime-armed-after-a-yield", L, "        self._protocol = protocol\n\n        if self._max_connection_lifetime:", "        self._protocol = protocol\n        await asyncio.sleep(0)\n\n        if self._max_connection_lifetime:"),
    M("n-lifetime-armed-after-a-log", L, "        self._protocol = protocol\n\n        if self._max_connection_lifetime:", "        self._protocol = protocol\n        _LOGGER.debug(\"Connected.\")\n\n        if self._max_connection_lifetime:", "S"),
]
