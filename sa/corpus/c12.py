from ..selftest import M

C = "msmart/device/AC/command.py"
F = "msmart/frame.py"
R = "msmart/crc8.py"
CORPUS = [
    M("crc-without-id", C, "        return super().tobytes(payload + bytes([crc8.calculate(payload)]))", "        return super().tobytes(payload + bytes([crc8.calculate(data)]))"),
    M("id-after-crc", C, """        payload = data + bytes([self._next_message_id()])

        # Append CRC
        return super().tobytes(payload + bytes([crc8.calculate(payload)]))""", """        payload = data + bytes([crc8.calculate(data)])

        # Append CRC
        return super().tobytes(payload + bytes([self._next_message_id()]))"""),
    M("length-minus-1", F, "        header[1] = len(data) + self._HEADER_LENGTH", "        header[1] = len(data) + self._HEADER_LENGTH - 1"),
    M("mask-dropped", C, "        return Command._message_id & 0xFF", "        return Command._message_id"),
    M("step-2", C, "        Command._message_id += 1", "        Command._message_id += 2"),
    M("bypass-base", C, """            payload = bytes([0xB5, 0x01, 0x01, 0x1])
        return super().tobytes(payload)""", """            payload = bytes([0xB5, 0x01, 0x01, 0x1])
        return Frame.tobytes(self, payload)"""),
    M("table-entry", R, "    0x00, 0x5E, 0xBC, 0xE2, 0x61, 0x3F, 0xDD, 0x83,", "    0x00, 0x5E, 0xBC, 0xE2, 0x61, 0x3F, 0xDD, 0x84,"),
    M("control-query-swapped", C, """    def __init__(self) -> None:
        super().__init__(frame_type=FrameType.QUERY)

        self.temperature_type = TemperatureType.INDOOR""", """    def __init__(self) -> None:
        super().__init__(frame_type=FrameType.CONTROL)

        self.temperature_type = TemperatureType.INDOOR"""),
    M("setstate-query", C, """    def __init__(self) -> None:
        super().__init__(frame_type=FrameType.CONTROL)

        self.beep_on = True
        self.power_on = False""", """    def __init__(self) -> None:
        super().__init__(frame_type=FrameType.QUERY)

        self.beep_on = True
        self.power_on = False"""),
    M("start-byte", F, "        header[0] = 0xAA", "        header[0] = 0xAB"),
    M("checksum-range", F, "        frame.append(Frame.checksum(frame[1:]))", "        frame.append(Frame.checksum(frame[2:]))"),
    M("checksum-not-twos", F, "        return (~sum(frame) + 1) & 0xFF", "        return (~sum(frame)) & 0xFF"),
    M("device-type-dropped", C, "        super().__init__(DeviceType.AIR_CONDITIONER, frame_type)", "        super().__init__(0xAD, frame_type)"),
    M("frame-type-position", F, "        header[9] = self._frame_type", "        header[8] = self._frame_type", also=[(F, "        header[8] = self._protocol_version\n", "")]),
    M("crc-start-nonzero", R, "    crc_value = 0\n", "    crc_value = 1\n"),
    M("crc-skips-mask", R, "        crc_value = _CRC8_854_TABLE[(crc_value ^ m) & 0xFF]", "        crc_value = _CRC8_854_TABLE[(crc_value + m) & 0xFF]"),
    M("count-byte-wrong", C, """        payload = bytearray([
            0xB1,  # Property request
            len(self._properties),
        ])""", """        payload = bytearray([
            0xB1,  # Property request
            len(self._properties) + 1,
        ])"""),
    M("prop-id-big-endian", C, """        for prop in self._properties:
            payload += struct.pack("<H", prop)""", """        for prop in self._properties:
            payload += struct.pack(">H", prop)"""),
    M("value-length-missing", C, "            payload += bytes([len(value)])\n            payload += value", "            payload += value"),
    M("two-ids", C, "        payload = data + bytes([self._next_message_id()])", "        self._next_message_id()\n        payload = data + bytes([self._next_message_id()])"),
    M("out-of-range-literal", C, "            0x81, 0x00, 0xFF, 0x03, 0xFF, 0x00,", "            0x81, 0x00, 0x1FF, 0x03, 0xFF, 0x00,"),
    # neutral
    M("n-bytearray-append", C, """        payload = data + bytes([self._next_message_id()])

        # Append CRC
        return super().tobytes(payload + bytes([crc8.calculate(payload)]))""", """        payload = bytearray(data)
        payload.append(self._next_message_id())
        payload.append(crc8.calculate(payload))
        return super().tobytes(payload)""", "S"),
    M("n-mod-256", C, "        return Command._message_id & 0xFF", "        return Command._message_id % 256", "S"),
    M("n-len-reordered", F, "        header[1] = len(data) + self._HEADER_LENGTH", "        header[1] = self._HEADER_LENGTH + len(data)", "S"),
]
# round 7 (C12.d): one serialisation - one message id - per command sent
CORPUS += [
    M("command-serialised-twice", "msmart/device/AC/device.py", "        responses = await super()._send_command(command)\n", "        _LOGGER.debug(\"Sending %s\", command.tobytes().hex())\n        responses = await super()._send_command(command)\n"),
]
# round 10: implicit serialisations (an accessor / __str__ that takes an id, used on the send chain)
CORPUS += [
    M("str-consumes-id-logged", "msmart/device/AC/command.py", "    def _next_message_id(self) -> int:",
      "    def __str__(self) -> str:\n        return self.tobytes().hex()\n\n    def _next_message_id(self) -> int:",
      also=[("msmart/device/AC/device.py", "        responses = await super()._send_command(command)\n",
              "        _LOGGER.debug(\"Sending %s\", command)\n        responses = await super()._send_command(command)\n")]),
    M("n-str-consumes-id-unused", "msmart/device/AC/command.py", "    def _next_message_id(self) -> int:",
      "    def __str__(self) -> str:\n        return self.tobytes().hex()\n\n    def _next_message_id(self) -> int:", "S"),
]
