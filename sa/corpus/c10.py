from ..selftest import M

C = "msmart/device/AC/command.py"
CORPUS = [
    M("beep-bit", C, "        beep = 0x40 if self.beep_on else 0\n        power = 0x1 if self.power_on else 0", "        beep = 0x20 if self.beep_on else 0\n        power = 0x1 if self.power_on else 0"),
    M("power-bit", C, "        power = 0x1 if self.power_on else 0", "        power = 0x4 if self.power_on else 0"),
    M("guard-lo-16-decodes-equal", C, "        if 17 <= integral_temp <= 30:", "        if 16 <= integral_temp <= 30:", "S"),
    M("guard-lo-15", C, "        if 17 <= integral_temp <= 30:", "        if 15 <= integral_temp <= 30:"),
    M("guard-hi-31-decodes-equal", C, "        if 17 <= integral_temp <= 30:", "        if 17 <= integral_temp <= 31:", "S"),
    M("guard-hi-32", C, "        if 17 <= integral_temp <= 30:", "        if 17 <= integral_temp <= 32:"),
    M("guard-hi-29", C, "        if 17 <= integral_temp <= 30:", "        if 17 <= integral_temp <= 29:", "S"),   # 30 via alt code 18 decodes to 30: still exact
    M("offset-16", C, "            temperature = (integral_temp - 16) & 0xF", "            temperature = (integral_temp - 17) & 0xF"),
    M("offset-12", C, "            temperature_alt = (integral_temp - 12) & 0x1F", "            temperature_alt = (integral_temp - 13) & 0x1F"),
    M("alt-mask", C, "            temperature_alt = (integral_temp - 12) & 0x1F", "            temperature_alt = (integral_temp - 12) & 0xF"),
    M("half-ge", C, "        temperature |= 0x10 if (fractional_temp > 0) else 0", "        temperature |= 0x10 if (fractional_temp >= 0) else 0"),
    M("half-bit", C, "        temperature |= 0x10 if (fractional_temp > 0) else 0", "        temperature |= 0x08 if (fractional_temp > 0) else 0"),
    M("mode-shift", C, "        mode = (self.operational_mode & 0x7) << 5", "        mode = (self.operational_mode & 0x7) << 4"),
    M("mode-mask", C, "        mode = (self.operational_mode & 0x7) << 5", "        mode = (self.operational_mode & 0x3) << 5"),
    M("swing-const", C, "        swing_mode = 0x30 | (self.swing_mode & 0x3F)", "        swing_mode = 0x10 | (self.swing_mode & 0x3F)"),
    M("swing-mask", C, "        swing_mode = 0x30 | (self.swing_mode & 0x3F)", "        swing_mode = 0x30 | (self.swing_mode & 0x7)"),
    M("eco-bit", C, "        eco = 0x80 if self.eco else 0", "        eco = 0x10 if self.eco else 0"),
    M("purifier-bit", C, "        purifier = 0x20 if self.purifier else 0", "        purifier = 0x40 if self.purifier else 0"),
    M("aux-bit", C, "        aux_heat = 0x08 if self.aux_heat else 0", "        aux_heat = 0x04 if self.aux_heat else 0"),
    M("sleep-turbo-swapped", C, "        sleep = 0x01 if self.sleep else 0\n        turbo = 0x02 if self.turbo else 0", "        sleep = 0x02 if self.sleep else 0\n        turbo = 0x01 if self.turbo else 0"),
    M("fahrenheit-bit", C, "        fahrenheit = 0x04 if self.fahrenheit else 0", "        fahrenheit = 0x08 if self.fahrenheit else 0"),
    M("turbo-alt-bit", C, "        turbo_alt = 0x20 if self.turbo else 0", "        turbo_alt = 0x10 if self.turbo else 0"),
    M("follow-me-bit", C, "        follow_me = 0x80 if self.follow_me else 0", "        follow_me = 0x40 if self.follow_me else 0"),
    M("humidity-mask", C, "        humidity = self.target_humidity & 0x7F", "        humidity = self.target_humidity & 0x3F"),
    M("freeze-bit", C, "        freeze_protect = 0x80 if self.freeze_protection else 0", "        freeze_protect = 0x40 if self.freeze_protection else 0"),
    M("indep-aux-bit", C, "        independent_aux_heat = 0x08 if self.independent_aux_heat else 0", "        independent_aux_heat = 0x10 if self.independent_aux_heat else 0"),
    M("flags-swapped", C, "        eco = 0x80 if self.eco else 0\n        purifier = 0x20 if self.purifier else 0", "        eco = 0x80 if self.purifier else 0\n        purifier = 0x20 if self.eco else 0"),
    M("field-dropped", C, "            follow_me | turbo_alt,", "            turbo_alt,"),
    M("byte-position", C, "            # Alternate temperature\n            temperature_alt,\n            # Target humidity\n            humidity,", "            # Alternate temperature\n            humidity,\n            # Target humidity\n            temperature_alt,"),
    M("control-source", C, "    CONTROL_SOURCE = 0x2  # App control", "    CONTROL_SOURCE = 0x4  # App control"),
    M("timer-byte", C, "            0x7F, 0x7F, 0x00,", "            0x7F, 0x00, 0x00,"),
    M("cmd-id", C, "            # Set state\n            0x40,", "            # Set state\n            0x41,"),
    M("fan-masked-lossy", C, "            # Fan speed\n            self.fan_speed,", "            # Fan speed\n            self.fan_speed & 0x3F,"),
    M("freeze-with-humidity-collision", C, "            # Target humidity\n            humidity,", "            # Target humidity\n            humidity | freeze_protect,", "V"),
    M("eco-inverted", C, "        eco = 0x80 if self.eco else 0", "        eco = 0 if self.eco else 0x80"),
    # neutral
    M("n-mask-noop", C, "            temperature = (integral_temp - 16) & 0xF", "            temperature = (integral_temp - 16)", "S"),
    M("n-half-ge-05", C, "        temperature |= 0x10 if (fractional_temp > 0) else 0", "        temperature |= 0x10 if (fractional_temp >= 0.5) else 0", "S"),
    M("n-flag-order", C, "            eco | purifier | force_aux_heat | aux_heat,", "            aux_heat | eco | force_aux_heat | purifier,", "S"),
    M("n-ifelse", C, "        eco = 0x80 if self.eco else 0", "        if self.eco:\n            eco = 0x80\n        else:\n            eco = 0", "S"),
    M("n-fan-mask-7f", C, "            # Fan speed\n            self.fan_speed,", "            # Fan speed\n            self.fan_speed & 0x7F,", "S"),
    M("n-humidity-ff", C, "        humidity = self.target_humidity & 0x7F", "        humidity = self.target_humidity & 0xFF", "S"),
    M("n-shift-form", C, "        mode = (self.operational_mode & 0x7) << 5", "        mode = (self.operational_mode << 5) & 0xE0", "S"),
]
# round 3 (C10.f): the state the command encodes is the state that was requested
CORPUS += [
    M("humidity-or-default", "msmart/device/AC/device.py", "cmd.target_humidity = or_default(self._target_humidity, 40)", "cmd.target_humidity = self._target_humidity or 40"),
    M("temperature-wrong-attr", "msmart/device/AC/device.py", "cmd.target_temperature = or_default(self._target_temperature, 25)", "cmd.target_temperature = or_default(self._indoor_temperature, 25)"),
    M("n-power-or-false", "msmart/device/AC/device.py", "cmd.power_on = or_default(self._power_state, False)", "cmd.power_on = self._power_state or False", "S"),
]
# round 8 (C10.f): deprecated aliases are transparent; a setter writes no other requested setting
CORPUS += [
    M("deprecated-forwards-first-call-only", "msmart/utils.py", "                setattr(func, \"_warn_deprecate\", True)\n\n            return func(*args, **kwargs)", "                setattr(func, \"_warn_deprecate\", True)\n                return func(*args, **kwargs)"),
    M("eco-setter-clears-turbo", "msmart/device/AC/device.py", "    @eco.setter\n    def eco(self, enabled: bool) -> None:\n        self._eco = enabled", "    @eco.setter\n    def eco(self, enabled: bool) -> None:\n        self._eco = enabled\n        if enabled:\n            self._turbo = False"),
]
# round 9 (growth): a flag the command class declares itself may use an unclaimed bit, not a listed field's bit
CORPUS += [
    M("n-extra-flag-in-free-bit", C, "        self.follow_me = False\n", "        self.follow_me = False\n        self.dry_clean = False\n", "S",
      also=[(C, "            eco | purifier | force_aux_heat | aux_heat,", "            eco | purifier | force_aux_heat | aux_heat | (0x04 if self.dry_clean else 0),")]),
    M("extra-flag-on-eco-bit", C, "        self.follow_me = False\n", "        self.follow_me = False\n        self.dry_clean = False\n",
      also=[(C, "            eco | purifier | force_aux_heat | aux_heat,", "            eco | purifier | force_aux_heat | aux_heat | (0x80 if self.dry_clean else 0),")]),
]
# round 11: the control command is a snapshot of the attributes taken before apply() first suspends
CORPUS += [
    M("apply-suspends-before-snapshot", "msmart/device/AC/device.py", "        cmd = SetStateCommand()\n", "        await self.refresh()\n        cmd = SetStateCommand()\n"),
    M("n-apply-logs-before-snapshot", "msmart/device/AC/device.py", "        cmd = SetStateCommand()\n", "        _LOGGER.debug(\"Applying state to device %s.\", self.id)\n        cmd = SetStateCommand()\n", "S"),
]
# round 12: apply() stores none of the attributes it encodes
CORPUS += [
    M("apply-mutes-beep-around-properties", "msmart/device/AC/device.py", "        await self._apply_properties(props)\n", "        beep_on, self._beep_on = self._beep_on, False\n        await self._apply_properties(props)\n        self._beep_on = beep_on\n"),
]
