from ..selftest import M

D = "msmart/discover.py"
K = "msmart/const.py"
B = "msmart/base_device.py"
A = "msmart/device/AC/device.py"
CORPUS = [
    M("reported-ip", D, 'return {"ip": ip, "port": port,', 'return {"ip": ip_address, "port": port,'),
    M("probe-byte", K, "    0x7f, 0x75, 0xbd, 0x6b, 0x3e, 0x4f, 0x8b, 0x76,", "    0x7f, 0x75, 0xbd, 0x6b, 0x3e, 0x4f, 0x8b, 0x77,"),
    M("probe-length", K, "    0x5a, 0x5a, 0x01, 0x11, 0x48, 0x00, 0x92, 0x00,", "    0x5a, 0x5a, 0x01, 0x11, 0x49, 0x00, 0x92, 0x00,"),
    M("ports", D, "        for port in [6445, 20086]:", "        for port in [6445, 20087]:"),
    M("one-port", D, "        for port in [6445, 20086]:", "        for port in [6445]:"),
    M("id-offset", D, '                device_id = int.from_bytes(data_mv[20:26], "little")', '                device_id = int.from_bytes(data_mv[21:27], "little")'),
    M("id-big-endian", D, '                device_id = int.from_bytes(data_mv[20:26], "little")', '                device_id = int.from_bytes(data_mv[20:26], "big")'),
    M("id-4-bytes", D, '                device_id = int.from_bytes(data_mv[20:26], "little")', '                device_id = int.from_bytes(data_mv[20:24], "little")'),
    M("class-mapping-inverted", D, "        if device_type == DeviceType.AIR_CONDITIONER:\n            return AirConditioner", "        if device_type != DeviceType.AIR_CONDITIONER:\n            return AirConditioner"),
    M("v3-strip", D, "                    data_mv = data_mv[8:-16]", "                    data_mv = data_mv[8:]"),
    M("v3-strip-missing", D, "                if version == 3:\n                    data_mv = data_mv[8:-16]\n", ""),
    M("port-big-endian", D, '                port = int.from_bytes(decrypted_mv[4:6], "little")', '                port = int.from_bytes(decrypted_mv[4:6], "big")'),
    M("sn-range", D, "                sn = decrypted_mv[8:40].tobytes().decode()", "                sn = decrypted_mv[8:39].tobytes().decode()"),
    M("name-offset", D, "                name = decrypted_mv[41:41+name_length].tobytes().decode()", "                name = decrypted_mv[40:40+name_length].tobytes().decode()"),
    M("type-token", D, '                device_type = int(name.split("_")[1], 16)', '                device_type = int(name.split("_")[2], 16)'),
    M("type-decimal", D, '                device_type = int(name.split("_")[1], 16)', '                device_type = int(name.split("_")[1], 10)'),
    M("version-markers-swapped", D, '            if start_of_packet == b"\\x5a\\x5a":\n                return 2', '            if start_of_packet == b"\\x5a\\x5a":\n                return 3'),
    M("version-not-forwarded", D, '"device_type": device_type, "version": version}', '"device_type": device_type, "version": 2}'),
    M("device-swaps-sn-name", B, '        self._sn = kwargs.get("sn", None)\n        self._name = kwargs.get("name", None)', '        self._sn = kwargs.get("name", None)\n        self._name = kwargs.get("sn", None)'),
    M("getter-port-returns-id", B, "    def port(self) -> int:\n        return self._port", "    def port(self) -> int:\n        return self._id"),
    M("ac-drops-kwargs", A, "        super().__init__(ip=ip, port=port, device_id=device_id,\n                         device_type=DeviceType.AIR_CONDITIONER, **kwargs)", "        super().__init__(ip=ip, port=port, device_id=device_id,\n                         device_type=DeviceType.AIR_CONDITIONER)"),
    M("handover-payload-ip", D, "            Discover._get_device(ip, version, data)", "            Discover._get_device(str(_port), version, data)"),
    M("body-range", D, "                encrypted_data = data_mv[40:-16]", "                encrypted_data = data_mv[40:]"),
    # neutral
    M("n-id-8-bytes", D, '                device_id = int.from_bytes(data_mv[20:26], "little")', '                device_id = int.from_bytes(data_mv[20:28], "little")', "S"),
    M("n-hoist", D, '                port = int.from_bytes(decrypted_mv[4:6], "little")', '                port_bytes = decrypted_mv[4:6]\n                port = int.from_bytes(port_bytes, "little")', "S"),
    M("n-class-else", D, "        if device_type == DeviceType.AIR_CONDITIONER:\n            return AirConditioner\n\n        # Unknown type return generic device\n        return Device",
      "        if device_type != DeviceType.AIR_CONDITIONER:\n            return Device\n        return AirConditioner", "S"),
]
# round 3: signedness of the reads; containment premises imported from C18
CORPUS += [
    M("port-signed", D, 'port = int.from_bytes(decrypted_mv[4:6], "little")', 'port = int.from_bytes(decrypted_mv[4:6], "little", signed=True)'),
    M("port-struct-signed", D, 'port = int.from_bytes(decrypted_mv[4:6], "little")', 'port = struct.unpack_from("<h", decrypted_mv, 4)[0]',
      also=[(D, "import socket\n", "import socket\nimport struct\n")]),
    # (unsigned, but a body shorter than 6 bytes now raises struct.error, which the per-host handler does not catch: reported through C18.b)
    M("port-struct-unsigned-uncontained", D, 'port = int.from_bytes(decrypted_mv[4:6], "little")', 'port = struct.unpack("<H", decrypted_mv[4:6])[0]',
      also=[(D, "import socket\n", "import socket\nimport struct\n")]),
    M("n-port-explicit-unsigned", D, 'port = int.from_bytes(decrypted_mv[4:6], "little")', 'port = int.from_bytes(decrypted_mv[4:6], "little", signed=False)', "S"),
    M("handler-narrowed-imported", D, "except (ValueError, LookupError, OSError, ET.ParseError) as e:", "except (ValueError, KeyError, OSError, ET.ParseError) as e:"),
]
# round 5 (C17.e): replies are collected for the whole timeout
CORPUS += [
    M("listening-window-capped", D, "            await asyncio.sleep(timeout)\n", "            await asyncio.sleep(min(timeout, 1))\n"),
    M("listening-window-skipped-for-hosts", D, "            await asyncio.sleep(timeout)\n", "            if target == _IPV4_BROADCAST:\n                await asyncio.sleep(timeout)\n            else:\n                await asyncio.sleep(0.5)\n"),
    M("n-listening-window-via-local", D, "            await asyncio.sleep(timeout)\n", "            delay = timeout\n            await asyncio.sleep(delay)\n", "S"),
]
# round 11: the callbacks asyncio runs while discover() listens leave the socket open
CORPUS += [
    M("error-received-closes-transport", "msmart/discover.py", "        _LOGGER.error(\"Got error: %s\", exc)\n", "        _LOGGER.error(\"Got error: %s\", exc)\n        if self._transport is not None:\n            self._transport.close()\n"),
]
