from ..selftest import M

D = "msmart/device/AC/device.py"
C = "msmart/device/AC/command.py"
CORPUS = [
    M("setter-not-recording", D, "        self._ieco = enabled\n        self._updated_properties.add(PropertyId.IECO)", "        self._ieco = enabled"),
    M("setter-wrong-id", D, "        self._horizontal_swing_angle = angle\n        self._updated_properties.add(PropertyId.SWING_LR_ANGLE)", "        self._horizontal_swing_angle = angle\n        self._updated_properties.add(PropertyId.SWING_UD_ANGLE)"),
    M("setter-wrong-field", D, "        self._rate_select = rate\n        self._updated_properties.add(PropertyId.RATE_SELECT)", "        self._supported_rate_selects = rate\n        self._updated_properties.add(PropertyId.RATE_SELECT)"),
    M("breeze-legacy-always", D, """        self._updated_properties.add(
            PropertyId.BREEZE_CONTROL if PropertyId.BREEZE_CONTROL in self._supported_properties
            else PropertyId.BREEZE_AWAY)""", "        self._updated_properties.add(PropertyId.BREEZE_AWAY)"),
    M("breeze-inverted-choice", D, """        self._updated_properties.add(
            PropertyId.BREEZE_CONTROL if PropertyId.BREEZE_CONTROL in self._supported_properties
            else PropertyId.BREEZELESS)""", """        self._updated_properties.add(
            PropertyId.BREEZELESS if PropertyId.BREEZE_CONTROL in self._supported_properties
            else PropertyId.BREEZE_CONTROL)"""),
    M("map-wrong-field", D, "        PropertyId.SWING_LR_ANGLE: lambda s: s._horizontal_swing_angle,", "        PropertyId.SWING_LR_ANGLE: lambda s: s._vertical_swing_angle,"),
    M("map-wrong-member", D, "        PropertyId.BREEZE_AWAY: lambda s: s._breeze_mode == AirConditioner.BreezeMode.BREEZE_AWAY,", "        PropertyId.BREEZE_AWAY: lambda s: s._breeze_mode == AirConditioner.BreezeMode.BREEZE_MILD,"),
    M("clear-removed", D, "        # Reset updated properties set\n        self._updated_properties.clear()\n", ""),
    M("clear-before-props", D, "        # Get current state of updated properties\n        props = {", "        self._updated_properties.clear()\n        # Get current state of updated properties\n        props = {",
      also=[(D, "        # Reset updated properties set\n        self._updated_properties.clear()\n", "")]),
    M("early-return-removed", D, "        # Done if no properties need updating\n        if not len(self._updated_properties):\n            return\n", ""),
    M("breeze-away-1-0", C, "            return bytes([2 if args[0] else 1])", "            return bytes([1 if args[0] else 0])"),
    M("ieco-12-bytes", C, "            return bytes([0, 1, args[0]]) + bytes(10)", "            return bytes([0, 1, args[0]]) + bytes(9)"),
    M("ieco-switch-position", C, "            return bytes([0, 1, args[0]]) + bytes(10)", "            return bytes([0, args[0], 1]) + bytes(10)"),
    M("precedence-swapped", D, "            if (value := res.get_property(PropertyId.BREEZE_CONTROL)) is not None:\n                self._breeze_mode = (AirConditioner.BreezeMode(value) if value in AirConditioner.BreezeMode.list()\n                                     else AirConditioner.BreezeMode.OFF)\n            else:",
      "            if (value := res.get_property(PropertyId.BREEZE_CONTROL)) is not None:\n                self._breeze_mode = (AirConditioner.BreezeMode(value) if value in AirConditioner.BreezeMode.list()\n                                     else AirConditioner.BreezeMode.OFF)\n            if True:"),
    M("buzzer-not-added", D, "        # Always add buzzer property\n        properties[PropertyId.BUZZER] = self._beep_on\n", ""),
    M("decode-breeze-away", C, "            return data[0] == 2", "            return data[0] == 1"),
    M("decode-ieco-index", C, "            return bool(data[1])", "            return bool(data[0])"),
    M("props-advance-3", C, "            # Advanced to next property\n            props = props[4+size:]\n\n    def get_property", "            # Advanced to next property\n            props = props[3+size:]\n\n    def get_property"),
    M("props-value-offset", C, "                if (value := property.decode(props[4:])) is not None:", "                if (value := property.decode(props[3:])) is not None:"),
    M("getters-same-member", D, "    def breeze_mild(self) -> Optional[bool]:\n        return self._breeze_mode == AirConditioner.BreezeMode.BREEZE_MILD", "    def breeze_mild(self) -> Optional[bool]:\n        return self._breeze_mode == AirConditioner.BreezeMode.BREEZE_AWAY"),
    M("props-all-map", D, "            for k in self._updated_properties & self._PROPERTY_MAP.keys()", "            for k in self._PROPERTY_MAP.keys()"),
    M("sent-twice", D, "        # Apply new properties\n        await self._apply_properties(props)", "        # Apply new properties\n        await self._apply_properties(props)\n        await self._apply_properties(props)"),
    M("id-constant", C, "    RATE_SELECT = 0x0048\n    FRESH_AIR = 0x004B\n    IECO = 0x00E3", "    RATE_SELECT = 0x0049\n    FRESH_AIR = 0x004B\n    IECO = 0x00E3"),
    M("refresh-queries-map", D, "            commands.append(GetPropertiesCommand(self._supported_properties))", "            commands.append(GetPropertiesCommand(self._updated_properties))"),
    # neutral
    M("n-clear-before-send", D, "        # Apply new properties\n        await self._apply_properties(props)\n\n        # Reset updated properties set\n        self._updated_properties.clear()",
      "        # Reset updated properties set\n        self._updated_properties.clear()\n\n        # Apply new properties\n        await self._apply_properties(props)", "S"),
    M("n-early-return-form", D, "        if not len(self._updated_properties):\n            return", "        if not self._updated_properties:\n            return", "S"),
    M("n-advance-form", C, "            # Advanced to next property\n            props = props[4+size:]\n\n    def get_property", "            # Advanced to next property\n            props = props[size+4:]\n\n    def get_property", "S"),
]
# round 3: the value written under BREEZE_CONTROL is the member's value
CORPUS += [
    M("breeze-off-zero", D, "    class BreezeMode(MideaIntEnum):\n        OFF = 1", "    class BreezeMode(MideaIntEnum):\n        OFF = 0"),
    M("breeze-members-swapped", D, "        BREEZE_AWAY = 2\n        BREEZE_MILD = 3", "        BREEZE_AWAY = 3\n        BREEZE_MILD = 2"),
]
# round 6 (C16.a advertised ids, C16.e read-back)
CORPUS += [
    M("readback-falsy-dropped", D, "            if (value := res.get_property(PropertyId.SELF_CLEAN)) is not None:", "            if (value := res.get_property(PropertyId.SELF_CLEAN)):"),
    M("readback-wrong-id", D, "            if (value := res.get_property(PropertyId.SELF_CLEAN)) is not None:", "            if (value := res.get_property(PropertyId.BUZZER)) is not None:"),
    M("capability-names-crossed", C, '            CapabilityId.BREEZE_AWAY: reader("breeze_away", get_value(1)),\n            CapabilityId.BREEZE_CONTROL: reader("breeze_control", get_value(1)),',
      '            CapabilityId.BREEZE_AWAY: reader("breeze_control", get_value(1)),\n            CapabilityId.BREEZE_CONTROL: reader("breeze_away", get_value(1)),'),
    M("n-readback-two-steps", D, "            if (value := res.get_property(PropertyId.SELF_CLEAN)) is not None:", "            value = res.get_property(PropertyId.SELF_CLEAN)\n            if value is not None:", "S"),
]
# round 7 (C16.b): only apply takes ids out of the pending set; (C16.e) a properties response owns its values
CORPUS += [
    M("refresh-clears-pending", D, "        commands = []\n\n        # Always request state updates", "        commands = []\n        self._updated_properties.clear()\n\n        # Always request state updates"),
    M("properties-dict-class-level", C, "class PropertiesResponse(Response):\n    \"\"\"Response to properties query.\"\"\"\n\n    def __init__(self, payload: memoryview) -> None:\n        super().__init__(payload)\n\n        self._properties = {}\n",
      "class PropertiesResponse(Response):\n    \"\"\"Response to properties query.\"\"\"\n\n    _properties: dict = {}\n\n    def __init__(self, payload: memoryview) -> None:\n        super().__init__(payload)\n"),
]
CORPUS += [
    M("breeze-away-off-skipped", D, "                if (value := res.get_property(PropertyId.BREEZE_AWAY)) is not None:", "                if (value := res.get_property(PropertyId.BREEZE_AWAY)):"),
    M("property-loop-stops-at-unknown-id", C, "                    \"Unknown property ID 0x%04X, Size: %d.\", raw_id, size)\n                # Advanced to next property\n                props = props[4+size:]\n                continue",
      "                    \"Unknown property ID 0x%04X, Size: %d.\", raw_id, size)\n                # Advanced to next property\n                props = props[4+size:]\n                break"),
]
