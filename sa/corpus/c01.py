from ..selftest import M

D = "msmart/device/AC/device.py"
L = "msmart/lan.py"
B = "msmart/base_device.py"
V2EXT = """                packet, self._buffer = buf[:total_size], bytearray(
                    buf[total_size:])

                # Queue the received packet
                self._queue.put_nowait(packet.tobytes())

    def connection_lost"""
CORPUS = [
    M("apply-drops-follow-me", D, "        cmd.follow_me = or_default(self._follow_me, False)\n", ""),
    M("apply-swaps-fields", D, "        cmd.eco = or_default(self._eco, False)\n        cmd.turbo = or_default(self._turbo, False)", "        cmd.eco = or_default(self._turbo, False)\n        cmd.turbo = or_default(self._eco, False)"),
    M("update-turbo-into-sleep", D, "            self._sleep = res.sleep\n", "            self._sleep = res.turbo\n"),
    M("drain-append-dropped", L, "        # Read any responses that may have been received sporadically\n        async for resp in self._read_available():\n            responses.append(resp)", "        # Read any responses that may have been received sporadically\n        async for resp in self._read_available():\n            pass"),
    M("refresh-first-only", D, "        # Update state from responses\n        for response in responses:\n            self._update_state(response)", "        # Update state from responses\n        for response in responses[:1]:\n            self._update_state(response)"),
    M("filter-alert-latched", D, "            self._filter_alert = res.filter_alert\n", "            self._filter_alert |= res.filter_alert\n"),
    M("keep-old-when-unknown", D, "            self._target_humidity = res.target_humidity\n", "            self._target_humidity = res.target_humidity or self._target_humidity\n"),
    M("setter-ignores-value", D, "    def purifier(self, enabled: bool) -> None:\n        self._purifier = enabled", "    def purifier(self, enabled: bool) -> None:\n        self._purifier = False"),
    M("aux-flags-swapped", D, "        cmd.aux_heat = self._aux_mode == AirConditioner.AuxHeatMode.AUX_HEAT\n        cmd.independent_aux_heat = self._aux_mode == AirConditioner.AuxHeatMode.AUX_ONLY",
      "        cmd.aux_heat = self._aux_mode == AirConditioner.AuxHeatMode.AUX_ONLY\n        cmd.independent_aux_heat = self._aux_mode == AirConditioner.AuxHeatMode.AUX_HEAT"),
    M("send-wrong-id", L, "        packet = _Packet.encode(self._device_id, data)", "        packet = _Packet.encode(0, data)"),
    M("or-default-inverted", D, "        def or_default(v, d) -> Any: return v if v is not None else d", "        def or_default(v, d) -> Any: return d if v is not None else v"),
    M("apply-conditional-update", D, "        # Process any state responses from the device\n        for response in await self._send_command_get_responses(cmd):\n            self._update_state(response)",
      "        # Process any state responses from the device\n        for response in await self._send_command_get_responses(cmd):\n            if response.id == ResponseId.STATE and self._supported:\n                self._update_state(response)"),
    M("v2-no-reassembly", L, """        # Add incoming data to buffer
        self._buffer += data

        # Process buffer until empty
        while len(self._buffer) > 0:
            # Find start of packet
            start = self._buffer.find(b"\\x5a\\x5a")
            if start == -1:
                return

            # Create a memoryview for zero copy slicing
            with memoryview(self._buffer) as buf:
                # Trim any leading data
                buf = buf[start:]

                # Check if the packet length has been received
                if len(buf) < 6:
                    return

                # Total packet length, which can't be less than the header and sign
                total_size = max(int.from_bytes(buf[4:6], "little"), 56)

                # Ensure entire packet is received
                if len(buf) < total_size:
                    return

                # Extract the packet from the buffer
                packet, self._buffer = buf[:total_size], bytearray(
                    buf[total_size:])

                # Queue the received packet
                self._queue.put_nowait(packet.tobytes())
""", "        self._queue.put_nowait(data)\n"),
    M("v2-length-big-endian", L, 'total_size = max(int.from_bytes(buf[4:6], "little"), 56)', 'total_size = max(int.from_bytes(buf[4:6], "big"), 56)'),
    M("v2-remainder-dropped", L, V2EXT, """                packet, self._buffer = buf[:total_size], bytearray(0)

                # Queue the received packet
                self._queue.put_nowait(packet.tobytes())

    def connection_lost"""),
    M("v2-guard-le", L, "                # Ensure entire packet is received\n                if len(buf) < total_size:\n                    return\n\n                # Extract the packet from the buffer\n                packet, self._buffer = buf[:total_size], bytearray(\n                    buf[total_size:])\n\n                # Queue the received packet\n                self._queue.put_nowait(packet.tobytes())\n\n    def connection_lost",
      "                # Ensure entire packet is received\n                if len(buf) <= total_size:\n                    return\n\n                # Extract the packet from the buffer\n                packet, self._buffer = buf[:total_size], bytearray(\n                    buf[total_size:])\n\n                # Queue the received packet\n                self._queue.put_nowait(packet.tobytes())\n\n    def connection_lost"),
    M("c10-mask-through-c01", "msmart/device/AC/command.py", "        humidity = self.target_humidity & 0x7F", "        humidity = self.target_humidity & 0x3F"),
    M("c11-index-through-c01", "msmart/device/AC/command.py", "        self.fan_speed = payload[3]", "        self.fan_speed = payload[4]"),
    M("send-command-other-frame", B, "            responses = await self._lan.send(data)", "            responses = await self._lan.send(data[:-1])"),
    # neutral
    M("n-rename-cmd", D, "        cmd = SetStateCommand()\n        cmd.beep_on = self._beep_on", "        command = SetStateCommand()\n        cmd = command\n        cmd.beep_on = self._beep_on", "S"),
    M("n-reorder-assignments", D, "        cmd.eco = or_default(self._eco, False)\n        cmd.turbo = or_default(self._turbo, False)", "        cmd.turbo = or_default(self._turbo, False)\n        cmd.eco = or_default(self._eco, False)", "S"),
    M("n-v2-floor-removed", L, 'total_size = max(int.from_bytes(buf[4:6], "little"), 56)', 'total_size = max(int.from_bytes(buf[4:6], "little"), 6)', "S"),
]
# round 4 (C01.c): the valid responses are returned as collected
CORPUS += [
    M("valid-responses-deduplicated", D, "        # Device is supported if we can process any response\n        self._supported = len(valid_responses) > 0",
      "        valid_responses = list(dict.fromkeys(valid_responses))\n\n        # Device is supported if we can process any response\n        self._supported = len(valid_responses) > 0"),
    M("valid-responses-last-only", D, "        return valid_responses\n", "        return valid_responses[-1:]\n"),
    M("n-valid-responses-copied", D, "        return valid_responses\n", "        return list(valid_responses)\n", "S"),
]
# round 11: histories, faults, interleavings - the pre-send drain and the first transmission lie in one atomic section
CORPUS += [
    M("drain-before-authenticate", "msmart/lan.py", """        # Authenticate as needed
        if (isinstance(self._protocol, _LanProtocolV3)
                and not self._protocol.authenticated):
            await self.authenticate()

            # Protocol should be authenticated now
            assert self._protocol.authenticated

        # Encode frame to packet
        packet = _Packet.encode(self._device_id, data)

        responses = []

        # Read any responses that may have been received sporadically
        async for resp in self._read_available():
            responses.append(resp)
""", """        responses = []

        # Read any responses that may have been received sporadically
        async for resp in self._read_available():
            responses.append(resp)

        # Authenticate as needed
        if (isinstance(self._protocol, _LanProtocolV3)
                and not self._protocol.authenticated):
            await self.authenticate()

            # Protocol should be authenticated now
            assert self._protocol.authenticated

        # Encode frame to packet
        packet = _Packet.encode(self._device_id, data)
"""),
    M("yield-between-drain-and-write", "msmart/lan.py", "        # Send the request and wait for a response\n        while retries > 0:\n            # Send the request",
      "        await asyncio.sleep(0)\n\n        # Send the request and wait for a response\n        while retries > 0:\n            # Send the request"),
    M("n-log-between-drain-and-write", "msmart/lan.py", "        # Send the request and wait for a response\n        while retries > 0:\n            # Send the request",
      "        _LOGGER.debug(\"%d frame(s) were waiting.\", len(responses))\n\n        # Send the request and wait for a response\n        while retries > 0:\n            # Send the request", "S"),
    M("unsolicited-after-reply", "msmart/lan.py", "        return responses\n\n\nclass Security:", "        return responses[-1:] + responses[:-1]\n\n\nclass Security:"),
]
