"""E0 - program model of /repo/msmart built from the syntax trees only.

Nothing under /repo is imported or executed.  The model offers:

* modules / classes / functions indexed by qualified name, with import-alias resolution,
  linearised MRO and method lookup;
* a constant folder for class- and module-level constants;
* a call resolver for the call shapes the repository uses;
* the exception hierarchy (built-ins from the interpreter, repo classes from the model,
  third-party classes from a frozen table plus httpx's own source, parsed not imported).

A source overlay ({relative path: text}) replaces files of the working tree; the
self-validation corpus uses it so that variants never touch the disk.
"""
from __future__ import annotations

import ast
import builtins
import hashlib
import os
from dataclasses import dataclass, field
from typing import Any, Dict, Iterable, List, Optional, Tuple, Union

REPO = os.environ.get("SA_REPO", "/repo")
PKG = "msmart"


class AnalysisError(Exception):
    """Anchor vanished / construct outside the analysed sub-language / internal error."""


class NotConst(Exception):
    pass


def norm(node: ast.AST) -> str:
    """Normalised text of a construct (used to key findings; never line numbers)."""
    try:
        return " ".join(ast.unparse(node).split())
    except Exception:  # pragma: no cover
        return type(node).__name__


@dataclass
class Module:
    name: str            # msmart.lan
    rel: str             # msmart/lan.py
    path: str
    source: str
    tree: ast.Module
    imports: Dict[str, Tuple[str, Optional[str]]] = field(default_factory=dict)  # local -> (module, attr|None)
    is_test: bool = False


@dataclass
class ClassInfo:
    name: str
    qual: str            # msmart.lan._LanProtocolV3  /  msmart.device.AC.device.AirConditioner.FanSpeed
    module: Module
    node: ast.ClassDef
    outer: Optional["ClassInfo"] = None
    methods: Dict[str, "FuncInfo"] = field(default_factory=dict)
    props_set: Dict[str, "FuncInfo"] = field(default_factory=dict)   # property setters
    attrs: Dict[str, ast.expr] = field(default_factory=dict)          # class-level assignments
    nested: Dict[str, "ClassInfo"] = field(default_factory=dict)
    base_exprs: List[ast.expr] = field(default_factory=list)

    def __hash__(self):
        return hash(self.qual)

    def __eq__(self, o):
        return isinstance(o, ClassInfo) and o.qual == self.qual

    def __repr__(self):
        return f"<class {self.qual}>"


# documented constants of the libraries the package uses (trusted base)
LIBRARY_CONSTANTS = {"Crypto.Cipher.AES.block_size": 16, "hashlib.md5.digest_size": 16, "hashlib.sha256.digest_size": 32}


@dataclass
class FuncInfo:
    name: str
    qual: str
    module: Module
    node: Union[ast.FunctionDef, ast.AsyncFunctionDef]
    cls: Optional[ClassInfo] = None
    kind: str = "method"   # method | classmethod | staticmethod | property | setter | function

    def __hash__(self):
        return hash(self.qual + self.kind)

    def __eq__(self, o):
        return isinstance(o, FuncInfo) and o.qual == self.qual and o.kind == self.kind

    def __repr__(self):
        return f"<func {self.qual}>"

    @property
    def is_async(self):
        return isinstance(self.node, ast.AsyncFunctionDef)

    @property
    def params(self) -> List[str]:
        a = self.node.args
        return [x.arg for x in a.posonlyargs + a.args]

    @property
    def args(self) -> List[str]:
        """the parameters a caller supplies, in order: positional ones without the receiver (self / cls), then keyword-only ones - the same
        list whether the function is a method, a classmethod, a staticmethod or was given keyword-only parameters"""
        a = self.node.args
        pos = [x.arg for x in a.posonlyargs + a.args]
        if self.cls is not None and self.kind in ("method", "classmethod", "property", "setter") and pos:
            pos = pos[1:]
        return pos + [x.arg for x in a.kwonlyargs]


@dataclass
class External:
    """A name that resolves outside the repository (library / builtin)."""
    name: str            # e.g. 'asyncio.wait_for', 'struct.unpack', 'len'

    def __repr__(self):
        return f"<ext {self.name}>"


# ---------------------------------------------------------------------------------------
# Exception hierarchy: built-ins from the interpreter; third-party from a frozen table.
# ---------------------------------------------------------------------------------------
LIB_EXC_PARENTS = {
    # library class -> direct parent (each a documented fact of the library, not of /repo)
    "asyncio.TimeoutError": "TimeoutError",          # alias of the builtin on >= 3.11
    "asyncio.CancelledError": "BaseException",
    "asyncio.QueueEmpty": "Exception",
    "asyncio.QueueFull": "Exception",
    "asyncio.InvalidStateError": "Exception",
    "struct.error": "Exception",
    "ipaddress.AddressValueError": "ValueError",
    "xml.etree.ElementTree.ParseError": "SyntaxError",
    "json.JSONDecodeError": "ValueError",
    "binascii.Error": "ValueError",
    "IOError": "OSError",
    "socket.timeout": "TimeoutError",
    "socket.gaierror": "OSError",
}
EXC_ALIASES = {
    "asyncio.TimeoutError": "TimeoutError",   # identical object on 3.11+
    "IOError": "OSError",
    "EnvironmentError": "OSError",
    "socket.error": "OSError",
    "socket.timeout": "TimeoutError",
    "asyncio.exceptions.TimeoutError": "TimeoutError",
    "asyncio.exceptions.CancelledError": "asyncio.CancelledError",
    "ET.ParseError": "xml.etree.ElementTree.ParseError",
}


def _httpx_hierarchy() -> Dict[str, str]:
    """Parse (not import) httpx/_exceptions.py for its class hierarchy."""
    out: Dict[str, str] = {}
    import sysconfig
    cands = []
    for base in {sysconfig.get_paths().get("purelib"), "/venv/lib/python3.12/site-packages"}:
        if base:
            cands.append(os.path.join(base, "httpx", "_exceptions.py"))
    for p in cands:
        if os.path.exists(p):
            tree = ast.parse(open(p).read())
            for n in tree.body:
                if isinstance(n, ast.ClassDef) and n.bases:
                    b = n.bases[0]
                    bn = b.id if isinstance(b, ast.Name) else None
                    if bn is None:
                        continue
                    parent = bn if hasattr(builtins, bn) else "httpx." + bn
                    out["httpx." + n.name] = parent
            break
    if not out:  # frozen fallback (httpx 0.2x)
        out = {"httpx.HTTPError": "Exception", "httpx.RequestError": "httpx.HTTPError",
               "httpx.TransportError": "httpx.RequestError", "httpx.TimeoutException": "httpx.TransportError",
               "httpx.HTTPStatusError": "httpx.HTTPError", "httpx.NetworkError": "httpx.TransportError",
               "httpx.ConnectError": "httpx.NetworkError", "httpx.ConnectTimeout": "httpx.TimeoutException",
               "httpx.ReadTimeout": "httpx.TimeoutException"}
    return out


class Program:
    def __init__(self, root: str = None, overlay: Optional[Dict[str, str]] = None, rename: str = "auto"):
        self.rename_mode = rename
        self.root = root or REPO
        self.overlay = overlay or {}
        self.modules: Dict[str, Module] = {}
        self.classes: Dict[str, ClassInfo] = {}
        self.funcs: Dict[str, FuncInfo] = {}
        self.setters: Dict[str, FuncInfo] = {}
        self.lib_exc = dict(LIB_EXC_PARENTS)
        self.lib_exc.update(_httpx_hierarchy())
        self._load()

    # ---------------------------------------------------------------- loading
    def _load(self):
        pkgroot = os.path.join(self.root, PKG)
        if not os.path.isdir(pkgroot):
            raise AnalysisError(f"package directory {pkgroot} not found")
        files = []
        for d, _dirs, fs in os.walk(pkgroot):
            for f in fs:
                if f.endswith(".py"):
                    files.append(os.path.relpath(os.path.join(d, f), self.root))
        for rel in set(files) | set(k for k in self.overlay if k.endswith(".py")):
            path = os.path.join(self.root, rel)
            if rel in self.overlay:
                src = self.overlay[rel]
            else:
                with open(path, encoding="utf-8") as fh:
                    src = fh.read()
            try:
                tree = ast.parse(src, filename=rel)
            except SyntaxError as e:
                raise AnalysisError(f"{rel} does not parse: {e}")
            from . import desugar
            desugar.rewrite(tree)          # match statements as the if / elif chains they abbreviate, `x: T = v` in functions as `x = v`, ...
            name = rel[:-3].replace(os.sep, ".")
            if name.endswith(".__init__"):
                name = name[: -len(".__init__")]
            base = os.path.basename(rel)
            is_test = base.startswith("test_") or "/tests/" in "/" + rel
            m = Module(name=name, rel=rel, path=path, source=src, tree=tree, is_test=is_test)
            self.modules[name] = m
        # consistent renames of private names are undone first (alpha-equivalent program, see sa/names.py)
        from . import names
        self.renamed, self.rename_diag = names.canonicalise({m.rel: m.tree for m in self.modules.values()}, mode=self.rename_mode)
        # definitions moved to another module of the package and re-imported / re-bound under their old name are moved back (sa/moves.py)
        from . import moves
        self.moves_undone = moves.undo({m.rel: m.tree for m in self.modules.values()})
        self.moves_undone += moves.undo_signatures({m.rel: m.tree for m in self.modules.values()})
        self.moves_undone += moves.undo_extractions({m.rel: m.tree for m in self.modules.values()})
        self.moves_undone += moves.undo_result_ownership({m.rel: m.tree for m in self.modules.values()})
        for m in self.modules.values():
            self._index_imports(m)
        for m in self.modules.values():
            if not m.is_test:
                self._index_defs(m)

    _known = None

    def is_known(self, qual: str) -> bool:
        """Was this function part of the tree the rules were written against?  Functions that are *not* (helpers a later
        refactoring extracted) are seen through: value-flow terms and the loop explorer inline them."""
        if Program._known is None:
            path = os.path.join(os.path.dirname(os.path.abspath(__file__)), "known_functions.txt")
            with open(path) as fh:
                Program._known = {l.strip() for l in fh if l.strip()}
        return qual in Program._known or qual in getattr(self, "extra_known", ())

    def digest(self) -> str:
        h = hashlib.sha256()
        for name in sorted(self.modules):
            h.update(name.encode())
            h.update(self.modules[name].source.encode())
        return h.hexdigest()[:16]

    def _index_imports(self, m: Module):
        pkg_parts = m.name.split(".")
        is_pkg = m.rel.endswith("__init__.py")
        for n in ast.walk(m.tree):
            if isinstance(n, ast.Import):
                for a in n.names:
                    local = a.asname or a.name.split(".")[0]
                    target = a.name if a.asname else a.name.split(".")[0]
                    m.imports[local] = (target, None)
            elif isinstance(n, ast.ImportFrom):
                mod = n.module or ""
                if n.level:
                    base = pkg_parts if is_pkg else pkg_parts[:-1]
                    base = base[: len(base) - (n.level - 1)] if n.level > 1 else base
                    mod = ".".join(base + ([mod] if mod else []))
                for a in n.names:
                    m.imports[a.asname or a.name] = (mod, a.name)

    def _index_defs(self, m: Module):
        def visit_class(node: ast.ClassDef, prefix: str, outer: Optional[ClassInfo]):
            ci = ClassInfo(name=node.name, qual=f"{prefix}.{node.name}", module=m, node=node, outer=outer,
                           base_exprs=list(node.bases))
            self.classes[ci.qual] = ci
            if outer:
                outer.nested[node.name] = ci
            for st in node.body:
                if isinstance(st, (ast.FunctionDef, ast.AsyncFunctionDef)):
                    kind = "method"
                    for d in st.decorator_list:
                        dn = norm(d)
                        if dn == "classmethod":
                            kind = "classmethod"
                        elif dn == "staticmethod":
                            kind = "staticmethod"
                        elif dn == "property":
                            kind = "property"
                        elif dn.endswith(".setter"):
                            kind = "setter"
                    fi = FuncInfo(name=st.name, qual=f"{ci.qual}.{st.name}", module=m, node=st, cls=ci, kind=kind)
                    if kind == "setter":
                        ci.props_set[st.name] = fi
                        self.setters[fi.qual] = fi
                    else:
                        ci.methods[st.name] = fi
                        self.funcs[fi.qual] = fi
                elif isinstance(st, ast.ClassDef):
                    visit_class(st, ci.qual, ci)
                elif isinstance(st, ast.Assign):
                    for t in st.targets:
                        if isinstance(t, ast.Name):
                            ci.attrs[t.id] = st.value
                elif isinstance(st, ast.AnnAssign) and isinstance(st.target, ast.Name) and st.value is not None:
                    ci.attrs[st.target.id] = st.value
            return ci

        for st in m.tree.body:
            if isinstance(st, ast.ClassDef):
                visit_class(st, m.name, None)
            elif isinstance(st, (ast.FunctionDef, ast.AsyncFunctionDef)):
                fi = FuncInfo(name=st.name, qual=f"{m.name}.{st.name}", module=m, node=st, cls=None, kind="function")
                self.funcs[fi.qual] = fi

    # ---------------------------------------------------------------- lookup
    def module(self, name: str) -> Module:
        if name not in self.modules:
            raise AnalysisError(f"module {name} not found")
        return self.modules[name]

    def cls(self, qual: str) -> ClassInfo:
        if qual not in self.classes:
            raise AnalysisError(f"anchor class {qual} not found")
        return self.classes[qual]

    def func(self, qual: str) -> FuncInfo:
        if qual not in self.funcs:
            # an anchored method the class now inherits (the body moved to a base class with per-class hooks): the inherited function,
            # analysed with this class as the receiver - what running it on an instance of this class does
            cq, _, name = qual.rpartition(".")
            c = self.classes.get(cq)
            f = self.lookup_method(c, name) if c is not None else None
            if f is not None and f.cls is not c:
                self.funcs[qual] = FuncInfo(name=name, qual=qual, module=f.module, node=f.node, cls=c, kind=f.kind)
                return self.funcs[qual]
            raise AnalysisError(f"anchor function {qual} not found")
        return self.funcs[qual]

    def setter(self, qual: str) -> FuncInfo:
        if qual not in self.setters:
            raise AnalysisError(f"anchor setter {qual} not found")
        return self.setters[qual]

    def module_assigns(self, m: Module) -> Dict[str, ast.expr]:
        out = {}
        for st in m.tree.body:
            if isinstance(st, ast.Assign):
                for t in st.targets:
                    if isinstance(t, ast.Name):
                        out[t.id] = st.value
                    elif isinstance(t, ast.Tuple) and isinstance(st.value, ast.Tuple) and len(t.elts) == len(st.value.elts):
                        for a, b in zip(t.elts, st.value.elts):
                            if isinstance(a, ast.Name):
                                out[a.id] = b
            elif isinstance(st, ast.AnnAssign) and isinstance(st.target, ast.Name) and st.value is not None:
                out[st.target.id] = st.value           # NAME: type = value
        return out

    def resolve_name(self, m: Module, name: str, cls: Optional[ClassInfo] = None):
        """Resolve a bare name used in module m (optionally inside class cls)."""
        c = cls
        while c is not None:
            if name in c.nested:
                return c.nested[name]
            c = c.outer
        q = f"{m.name}.{name}"
        if q in self.classes:
            return self.classes[q]
        if q in self.funcs:
            return self.funcs[q]
        if name in m.imports:
            mod, attr = m.imports[name]
            return self._resolve_import(mod, attr)
        assigns = self.module_assigns(m)
        if name in assigns:
            return ("modconst", m, name)
        if hasattr(builtins, name):
            return External(name)
        return None

    def _resolve_import(self, mod: str, attr: Optional[str], depth=0):
        if depth > 6:
            return External(f"{mod}.{attr}")
        if attr is None:
            if mod in self.modules:
                return self.modules[mod]
            return External(mod)
        if mod in self.modules:
            tm = self.modules[mod]
            q = f"{mod}.{attr}"
            if q in self.classes:
                return self.classes[q]
            if q in self.funcs:
                return self.funcs[q]
            if f"{mod}.{attr}" in self.modules:
                return self.modules[f"{mod}.{attr}"]
            if attr in tm.imports:  # re-export (msmart.device -> AC.device)
                m2, a2 = tm.imports[attr]
                return self._resolve_import(m2, a2, depth + 1)
            if attr in self.module_assigns(tm):
                return ("modconst", tm, attr)
            return None
        if f"{mod}.{attr}" in self.modules:
            return self.modules[f"{mod}.{attr}"]
        return External(f"{mod}.{attr}")

    def resolve_expr(self, m: Module, e: ast.expr, cls: Optional[ClassInfo] = None):
        """Resolve a Name / dotted Attribute expression to a program entity (no instance typing)."""
        if isinstance(e, ast.Name):
            return self.resolve_name(m, e.id, cls)
        if isinstance(e, ast.Attribute):
            base = self.resolve_expr(m, e.value, cls)
            if isinstance(base, ClassInfo):
                if e.attr in base.nested:
                    return base.nested[e.attr]
                f = self.lookup_method(base, e.attr)
                if f:
                    return f
                a = self.lookup_class_attr(base, e.attr)
                if a is not None:
                    return ("classattr", a[0], e.attr)
                return None
            if isinstance(base, Module):
                return self._resolve_import(base.name, e.attr)
            if isinstance(base, External):
                return External(f"{base.name}.{e.attr}")
        return None

    def bases(self, c: ClassInfo) -> List[Union[ClassInfo, External]]:
        out = []
        for b in c.base_exprs:
            r = self.resolve_expr(c.module, b, c.outer)
            if isinstance(r, (ClassInfo, External)):
                out.append(r)
            else:
                out.append(External(norm(b)))
        return out

    def mro(self, c: ClassInfo) -> List[ClassInfo]:
        out, seen = [], set()

        def walk(k):
            if k.qual in seen:
                return
            seen.add(k.qual)
            out.append(k)
            for b in self.bases(k):
                if isinstance(b, ClassInfo):
                    walk(b)
        walk(c)
        return out

    def ext_bases(self, c: ClassInfo) -> List[str]:
        out = []
        for k in self.mro(c):
            for b in self.bases(k):
                if isinstance(b, External):
                    out.append(b.name)
        return out

    def record_fields(self, c: ClassInfo) -> Optional[List[Tuple[str, Optional[ast.expr]]]]:
        """[(field, default expression or None)] when constructing `c` does nothing but store its arguments under these names:
        a typing.NamedTuple class or a @dataclass without __init__ / __new__ / __post_init__; None otherwise"""
        names = self.ext_bases(c)
        deco = {dotted(d.func if isinstance(d, ast.Call) else d) for d in c.node.decorator_list}
        is_nt = any(n.endswith("NamedTuple") for n in names)
        is_dc = any(d and d.split(".")[-1] == "dataclass" for d in deco)
        if not (is_nt or is_dc) or any(m in c.methods for m in ("__init__", "__new__", "__post_init__")):
            return None
        out = []
        for k in reversed(self.mro(c)):
            for st in k.node.body:
                if isinstance(st, ast.AnnAssign) and isinstance(st.target, ast.Name) and "ClassVar" not in ast.unparse(st.annotation):
                    out = [f for f in out if f[0] != st.target.id] + [(st.target.id, st.value)]
        return out or None

    def is_namedtuple(self, c: ClassInfo) -> bool:
        return any(n.endswith("NamedTuple") for n in self.ext_bases(c))

    def is_subclass(self, c: ClassInfo, other: ClassInfo) -> bool:
        return other in self.mro(c)

    def subclasses(self, c: ClassInfo) -> List[ClassInfo]:
        return [k for k in self.classes.values() if c in self.mro(k)]

    def lookup_method(self, c: ClassInfo, name: str, after: Optional[ClassInfo] = None) -> Optional[FuncInfo]:
        mro = self.mro(c)
        if after is not None:
            if after not in mro:
                return None
            mro = mro[mro.index(after) + 1:]
        for k in mro:
            if name in k.methods:
                return k.methods[name]
        return None

    def attr_store_names(self) -> set:
        """Names ever assigned through an attribute target (`x.name = ...`, augmented, deleted, setattr is ignored) in the package."""
        if getattr(self, "_attr_stores", None) is None:
            out = set()
            for m in self.modules.values():
                if m.is_test:
                    continue
                for n in ast.walk(m.tree):
                    if isinstance(n, ast.Attribute) and isinstance(n.ctx, (ast.Store, ast.Del)):
                        out.add(n.attr)
            self._attr_stores = out
        return self._attr_stores

    def lookup_class_attr(self, c: ClassInfo, name: str) -> Optional[Tuple[ClassInfo, ast.expr]]:
        for k in self.mro(c):
            if name in k.attrs:
                return k, k.attrs[name]
        return None

    def enclosing(self, m: Module, node: ast.AST) -> Optional[FuncInfo]:
        for f in list(self.funcs.values()) + list(self.setters.values()):
            if f.module is m:
                for n in ast.walk(f.node):
                    if n is node:
                        return f
        return None

    def all_functions(self, include_setters=True) -> List[FuncInfo]:
        fs = [f for f in self.funcs.values() if not f.module.is_test]
        if include_setters:
            fs += [f for f in self.setters.values() if not f.module.is_test]
        return fs

    # ---------------------------------------------------------------- enums
    def is_enum(self, c: ClassInfo) -> bool:
        for k in self.mro(c):
            for b in self.bases(k):
                if isinstance(b, External) and b.name.split(".")[-1] in ("IntEnum", "Enum", "IntFlag"):
                    return True
        return False

    def enum_members(self, c: ClassInfo) -> Dict[str, int]:
        """name -> value, in definition order; aliases (DEFAULT = AUTO) included."""
        out: Dict[str, int] = {}
        for st in c.node.body:
            if isinstance(st, ast.Assign) and len(st.targets) == 1 and isinstance(st.targets[0], ast.Name):
                n = st.targets[0].id
                try:
                    v = self.fold(st.value, c.module, c, local=out)
                except NotConst:
                    continue
                if isinstance(v, int):
                    out[n] = v
        return out

    def enum_canonical(self, c: ClassInfo) -> Dict[str, int]:
        """Members that are not aliases (first name per value), as Enum iteration yields."""
        seen, out = set(), {}
        for n, v in self.enum_members(c).items():
            if v not in seen:
                seen.add(v)
                out[n] = v
        return out

    # ---------------------------------------------------------------- constant folding
    def fold(self, e: ast.expr, m: Module, cls: Optional[ClassInfo] = None, local: Optional[dict] = None, depth=0) -> Any:
        if depth > 12:
            raise NotConst("depth")
        F = lambda x: self.fold(x, m, cls, local, depth + 1)  # noqa: E731
        if isinstance(e, ast.Constant):
            return e.value
        if isinstance(e, ast.Name):
            if local is not None and e.id in local:
                return local[e.id]
            c = cls
            while c is not None:
                a = self.lookup_class_attr(c, e.id)
                if a is not None and c is cls:
                    return self.fold(a[1], a[0].module, a[0], None, depth + 1)
                c = c.outer
            r = self.resolve_name(m, e.id, cls)
            return self._fold_entity(r, depth)
        if isinstance(e, ast.Attribute) and e.attr in ("size", "format", "start", "stop", "step"):
            try:
                base = F(e.value)
            except NotConst:
                base = None
            if isinstance(base, tuple) and len(base) == 2 and base[0] == "struct.Struct" and e.attr in ("size", "format"):
                import struct as _st
                try:
                    return _st.calcsize(base[1]) if e.attr == "size" else base[1]
                except _st.error:
                    raise NotConst("bad struct format")
            if isinstance(base, slice) and e.attr in ("start", "stop", "step"):
                return getattr(base, e.attr)
        if isinstance(e, ast.Attribute):
            if isinstance(e.value, ast.Name) and e.value.id in ("self", "cls") and cls is not None and not (local and e.value.id in local):
                # self.X / cls.X for a class-level constant X that no code in the package ever stores through an attribute
                a = self.lookup_class_attr(cls, e.attr)
                if a is not None and e.attr not in self.attr_store_names() and not any(
                        k is not a[0] and e.attr in k.attrs and a[0] in self.mro(k) for k in self.classes.values()):
                    return self.fold(a[1], a[0].module, a[0], None, depth + 1)
            r = self.resolve_expr(m, e, cls)
            if r is not None and not isinstance(r, External):
                return self._fold_entity(r, depth)
            base = self.resolve_expr(m, e.value, cls)
            if isinstance(base, ClassInfo) and self.is_enum(base):
                mem = self.enum_members(base)
                if e.attr in mem:
                    return mem[e.attr]
            if isinstance(r, External):
                if r.name in LIBRARY_CONSTANTS:
                    return LIBRARY_CONSTANTS[r.name]
                if r.name in ("Crypto.Cipher.AES.MODE_ECB",):
                    return ("AES", "ECB")
                if r.name in ("Crypto.Cipher.AES.MODE_CBC",):
                    return ("AES", "CBC")
            raise NotConst(norm(e))
        if isinstance(e, ast.UnaryOp):
            v = F(e.operand)
            if isinstance(e.op, ast.USub):
                return -v
            if isinstance(e.op, ast.Invert):
                return ~v
            if isinstance(e.op, ast.Not):
                return not v
            if isinstance(e.op, ast.UAdd):
                return +v
        if isinstance(e, ast.BinOp):
            a, b = F(e.left), F(e.right)
            try:
                if isinstance(e.op, ast.Add):
                    return a + b
                if isinstance(e.op, ast.Sub):
                    return a - b
                if isinstance(e.op, ast.Mult):
                    if isinstance(a, (bytes, str, list)) and isinstance(b, int) and b > 1 << 16:
                        raise NotConst("huge repeat")
                    return a * b
                if isinstance(e.op, ast.BitOr):
                    return a | b
                if isinstance(e.op, ast.BitAnd):
                    return a & b
                if isinstance(e.op, ast.BitXor):
                    return a ^ b
                if isinstance(e.op, ast.LShift):
                    if b > 64:
                        raise NotConst("huge shift")
                    return a << b
                if isinstance(e.op, ast.RShift):
                    return a >> b
                if isinstance(e.op, ast.FloorDiv):
                    return a // b
                if isinstance(e.op, ast.Mod):
                    return a % b
                if isinstance(e.op, ast.Div):
                    return a / b
            except NotConst:
                raise
            except Exception as ex:
                raise NotConst(str(ex))
        if isinstance(e, (ast.List, ast.Tuple)):
            vals = [F(x) for x in e.elts]
            return vals if isinstance(e, ast.List) else tuple(vals)
        if isinstance(e, ast.Dict):
            return {F(k): F(v) for k, v in zip(e.keys, e.values) if k is not None}
        if isinstance(e, ast.IfExp):
            return F(e.body) if F(e.test) else F(e.orelse)
        if isinstance(e, ast.Compare) and len(e.ops) == 1 and isinstance(e.ops[0], (ast.Eq, ast.NotEq, ast.Lt, ast.LtE, ast.Gt, ast.GtE)):
            a_, b_ = F(e.left), F(e.comparators[0])
            try:
                return {ast.Eq: a_ == b_, ast.NotEq: a_ != b_, ast.Lt: a_ < b_, ast.LtE: a_ <= b_, ast.Gt: a_ > b_, ast.GtE: a_ >= b_}[type(e.ops[0])]
            except TypeError as ex:
                raise NotConst(str(ex))
        if isinstance(e, ast.BoolOp):
            vals_ = [F(v) for v in e.values]
            out_ = vals_[0]
            for v in vals_[1:]:
                out_ = (out_ and v) if isinstance(e.op, ast.And) else (out_ or v)
            return out_
        if isinstance(e, ast.Call) and isinstance(e.func, ast.Name) and not e.keywords:
            r0 = self.resolve_name(m, e.func.id, cls)
            if isinstance(r0, FuncInfo) and r0.kind == "function" and not r0.is_async:
                # a module-level pure integer function applied to constants (a table computed at import): bounded evaluation
                return self._eval_pure(r0, [F(a) for a in e.args], depth)
        if isinstance(e, ast.Call):
            fn = e.func
            fname = None
            if isinstance(fn, ast.Name):
                r = self.resolve_name(m, fn.id, cls)
                fname = r.name if isinstance(r, External) else None
            elif isinstance(fn, ast.Attribute):
                r = self.resolve_expr(m, fn, cls)
                if isinstance(r, External):
                    fname = r.name
                elif isinstance(fn.value, (ast.Constant, ast.Call, ast.Name, ast.Attribute)):
                    # method on a folded value: "..".encode(), md5(x).digest(), bytes.fromhex
                    try:
                        recv = F(fn.value)
                    except NotConst:
                        recv = None
                    if isinstance(recv, str) and fn.attr == "encode":
                        return recv.encode(*[F(a) for a in e.args])
                    if isinstance(recv, tuple) and len(recv) == 2 and recv[0] in ("md5", "sha256") and fn.attr in ("digest", "hexdigest"):
                        h = hashlib.new(recv[0], recv[1])
                        return h.digest() if fn.attr == "digest" else h.hexdigest()
                    if isinstance(recv, int) and fn.attr == "to_bytes":
                        args = [F(a) for a in e.args]
                        return recv.to_bytes(*args)
            if fname == "struct.Struct" and len(e.args) == 1 and not e.keywords:
                a = F(e.args[0])
                if isinstance(a, str):
                    return ("struct.Struct", a)          # a precompiled format (hashable constant)
            if fname in ("operator.itemgetter", "operator.attrgetter") and e.args and not e.keywords:
                a = tuple(F(x) for x in e.args)
                if fname.endswith("attrgetter") and not all(isinstance(x, str) for x in a):
                    raise NotConst("attrgetter of a non-string")
                return (fname, a)          # a getter object (hashable constant): calling it is indexing / attribute access
            if fname in ("tuple", "list", "frozenset") and len(e.args) == 1 and isinstance(e.args[0], ast.GeneratorExp) and not e.keywords:
                # tuple(f(x) for x in range(..)): the comprehension, folded
                lc = ast.ListComp(elt=e.args[0].elt, generators=e.args[0].generators)
                v_ = self.fold(ast.copy_location(lc, e), m, cls, local, depth + 1)
                return frozenset(v_) if fname == "frozenset" else tuple(v_)
            if fname in ("tuple", "frozenset") and len(e.args) == 1 and not e.keywords:
                a = F(e.args[0])          # frozenset((A, B)) / tuple([A, B]): an immutable constant collection
                if isinstance(a, (tuple, list, frozenset, range, bytes)) and len(a) <= 512:
                    return frozenset(a) if fname == "frozenset" else tuple(a)
            if fname == "range" and 1 <= len(e.args) <= 3 and not e.keywords:
                a = [F(x) for x in e.args]
                if all(isinstance(x, int) and not isinstance(x, bool) for x in a) and (len(a) < 3 or a[2] != 0):
                    return range(*a)          # (hashable constant)
            if fname == "slice" and 1 <= len(e.args) <= 3 and not e.keywords:
                a = [F(x) for x in e.args]
                if all(x is None or (isinstance(x, int) and not isinstance(x, bool)) for x in a):
                    return slice(*a)          # a named slice object (hashable constant)
            if fname in ("bytes", "bytearray"):
                if not e.args:
                    return b""
                a = F(e.args[0])
                if isinstance(a, int):
                    if a > 1 << 16:
                        raise NotConst("huge")
                    return bytes(a)
                if isinstance(a, (list, tuple)) and all(isinstance(x, int) and 0 <= x <= 255 for x in a):
                    return bytes(a)
                if isinstance(a, (bytes, bytearray)):
                    return bytes(a)
            if fname in ("hashlib.md5", "hashlib.sha256") and len(e.args) == 1:
                a = F(e.args[0])
                if isinstance(a, bytes):
                    return (fname.split(".")[1], a)
            if fname == "datetime.timedelta":
                kw = {k.arg: F(k.value) for k in e.keywords}
                import datetime as _dt
                return _dt.timedelta(**kw)
            if fname == "bytes.fromhex" and len(e.args) == 1:
                a = F(e.args[0])
                if isinstance(a, str):
                    return bytes.fromhex(a)
            if fname == "len" and len(e.args) == 1:
                return len(F(e.args[0]))
            if fname == "int" and len(e.args) == 1:
                return int(F(e.args[0]))
        if isinstance(e, (ast.DictComp, ast.ListComp, ast.SetComp)) and len(e.generators) == 1 and not e.generators[0].is_async:
            # a table computed once from constants: {k: k - 16 for k in range(17, 31)}
            g = e.generators[0]
            items = F(g.iter)
            if isinstance(items, dict):
                items = list(items)
            if not isinstance(items, (range, tuple, list, bytes)) or len(items) > 512:
                raise NotConst("comprehension source")
            out = []
            for it in items:
                env = dict(local or {})
                if isinstance(g.target, ast.Name):
                    env[g.target.id] = it
                elif isinstance(g.target, (ast.Tuple, ast.List)) and isinstance(it, (tuple, list)) and len(it) == len(g.target.elts) \
                        and all(isinstance(x, ast.Name) for x in g.target.elts):
                    env.update({x.id: v for x, v in zip(g.target.elts, it)})
                else:
                    raise NotConst("comprehension target")
                if all(self.fold(c, m, cls, env, depth + 1) for c in g.ifs):
                    if isinstance(e, ast.DictComp):
                        out.append((self.fold(e.key, m, cls, env, depth + 1), self.fold(e.value, m, cls, env, depth + 1)))
                    else:
                        out.append(self.fold(e.elt, m, cls, env, depth + 1))
            if isinstance(e, ast.DictComp):
                return dict(out)
            return tuple(out) if isinstance(e, ast.ListComp) else frozenset(out)
        raise NotConst(norm(e))

    def _eval_pure(self, f: "FuncInfo", args: list, depth: int):
        """Value of f(*args) for a function made of local assignments, `for .. in range(..)`, if / else and return over constants
        (no calls but through fold, no attribute or global stores): constant propagation with a step bound."""
        if depth > 6 or len(args) != len(f.params) or not all(isinstance(a, (int, bool)) for a in args):
            raise NotConst("pure call")
        env = dict(zip(f.params, args))
        steps = [0]

        class _Ret(Exception):
            def __init__(self, v):
                self.v = v

        def run(stmts):
            for st in stmts:
                steps[0] += 1
                if steps[0] > 20000:
                    raise NotConst("step bound")
                if isinstance(st, ast.Expr) and isinstance(st.value, ast.Constant):
                    continue
                if isinstance(st, ast.Assign) and len(st.targets) == 1 and isinstance(st.targets[0], ast.Name):
                    env[st.targets[0].id] = self.fold(st.value, f.module, None, env, depth + 1)
                elif isinstance(st, ast.AugAssign) and isinstance(st.target, ast.Name):
                    env[st.target.id] = self.fold(ast.BinOp(left=ast.Name(id=st.target.id, ctx=ast.Load()), op=st.op, right=st.value), f.module, None, env, depth + 1)
                elif isinstance(st, ast.If):
                    run(st.body if self.fold(st.test, f.module, None, env, depth + 1) else st.orelse)
                elif isinstance(st, ast.For) and isinstance(st.target, ast.Name) and not st.orelse:
                    it = self.fold(st.iter, f.module, None, env, depth + 1)
                    if not isinstance(it, (range, tuple, list)) or len(it) > 4096:
                        raise NotConst("loop source")
                    for v in it:
                        env[st.target.id] = v
                        run(st.body)
                elif isinstance(st, ast.Return):
                    raise _Ret(self.fold(st.value, f.module, None, env, depth + 1) if st.value is not None else None)
                elif isinstance(st, ast.Pass):
                    continue
                else:
                    raise NotConst(f"statement {type(st).__name__} in a pure function")
        try:
            run(f.node.body)
        except _Ret as r:
            return r.v
        return None

    def _fold_entity(self, r, depth):
        if isinstance(r, tuple) and r[0] == "modconst":
            _, tm, name = r
            return self.fold(self.module_assigns(tm)[name], tm, None, None, depth + 1)
        if isinstance(r, tuple) and r[0] == "classattr":
            _, k, name = r
            if self.is_enum(k):
                mem = self.enum_members(k)
                if name in mem:
                    return mem[name]
            return self.fold(k.attrs[name], k.module, k, None, depth + 1)
        raise NotConst(str(r))

    def fold_or_none(self, e, m, cls=None):
        try:
            return self.fold(e, m, cls)
        except NotConst:
            return None

    # ---------------------------------------------------------------- exceptions
    def exc_name(self, m: Module, e: ast.expr, cls: Optional[ClassInfo] = None) -> str:
        """Canonical name of an exception class expression."""
        r = self.resolve_expr(m, e, cls)
        if isinstance(r, ClassInfo):
            return r.qual
        if isinstance(r, External):
            n = r.name
        else:
            n = norm(e)
        if n == "xml.etree.ElementTree.ParseError" or n.endswith("ET.ParseError"):
            n = "xml.etree.ElementTree.ParseError"
        return EXC_ALIASES.get(n, n)

    def exc_parents(self, name: str) -> List[str]:
        name = EXC_ALIASES.get(name, name)
        if name in self.classes:
            c = self.classes[name]
            out = []
            for b in self.bases(c):
                out.append(b.qual if isinstance(b, ClassInfo) else EXC_ALIASES.get(b.name, b.name))
            return out
        if name in self.lib_exc:
            return [self.lib_exc[name]]
        b = getattr(builtins, name, None)
        if isinstance(b, type) and issubclass(b, BaseException):
            return [p.__name__ for p in b.__bases__ if p is not object]
        return []

    def exc_ancestors(self, name: str) -> List[str]:
        name = EXC_ALIASES.get(name, name)
        out, todo = [], [name]
        while todo:
            n = todo.pop(0)
            if n in out:
                continue
            out.append(n)
            todo.extend(self.exc_parents(n))
        return out

    def exc_is(self, name: str, handler: str) -> bool:
        """issubclass(name, handler) in the combined hierarchy."""
        handler = EXC_ALIASES.get(handler, handler)
        return handler in self.exc_ancestors(name)

    def exc_short(self, name: str) -> str:
        return name.split(".")[-1] if name in self.classes else name

    def handler_names(self, m: Module, h: ast.ExceptHandler, cls=None) -> List[str]:
        if h.type is None:
            return ["BaseException"]
        if isinstance(h.type, ast.Tuple):
            return [self.exc_name(m, x, cls) for x in h.type.elts]
        # `except NAMED_TUPLE:` with a module / class level constant tuple of exception classes
        if isinstance(h.type, (ast.Name, ast.Attribute)):
            node, dm, dc = None, m, cls
            if isinstance(h.type, ast.Name):
                r = self.resolve_name(m, h.type.id, cls)
                if isinstance(r, tuple) and r and r[0] == "modconst":
                    dm = r[1]
                    node = self.module_assigns(dm).get(r[2])
                    dc = None
            elif isinstance(h.type.value, ast.Name):
                r = self.resolve_name(m, h.type.value.id, cls)
                k = cls if h.type.value.id in ("self", "cls") else (r if isinstance(r, ClassInfo) else None)
                a = self.lookup_class_attr(k, h.type.attr) if k is not None else None
                if a is not None:
                    node, dm, dc = a[1], a[0].module, a[0]
            if isinstance(node, ast.Tuple):
                return [self.exc_name(dm, x, dc) for x in node.elts]
        return [self.exc_name(m, h.type, cls)]


# ---------------------------------------------------------------------------------------
# small AST helpers shared by the rules
# ---------------------------------------------------------------------------------------
def is_self_attr(e: ast.AST, attr: Optional[str] = None, recv=("self",)) -> bool:
    return (isinstance(e, ast.Attribute) and isinstance(e.value, ast.Name) and e.value.id in recv
            and (attr is None or e.attr == attr))


def call_name(e: ast.AST) -> Optional[str]:
    """Dotted text of a call's function expression (a.b.c) or None."""
    if not isinstance(e, ast.Call):
        return None
    return dotted(e.func)


def dotted(e: ast.AST) -> Optional[str]:
    if isinstance(e, ast.Name):
        return e.id
    if isinstance(e, ast.Attribute):
        b = dotted(e.value)
        if b is None:
            if isinstance(e.value, ast.Call):
                inner = dotted(e.value.func)
                return f"{inner}().{e.attr}" if inner else None
            return None
        return f"{b}.{e.attr}"
    return None


def const_int(e: Optional[ast.AST]) -> Optional[int]:
    if isinstance(e, ast.Constant) and isinstance(e.value, int) and not isinstance(e.value, bool):
        return e.value
    if isinstance(e, ast.UnaryOp) and isinstance(e.op, ast.USub):
        v = const_int(e.operand)
        return -v if v is not None else None
    return None


def walk_no_nested(node: ast.AST) -> Iterable[ast.AST]:
    """ast.walk that does not descend into nested function / lambda / class bodies."""
    todo = [node]
    first = True
    while todo:
        n = todo.pop()
        if not first and isinstance(n, (ast.FunctionDef, ast.AsyncFunctionDef, ast.Lambda, ast.ClassDef)):
            continue
        first = False
        yield n
        todo.extend(ast.iter_child_nodes(n))


def stmts_of(fn) -> List[ast.stmt]:
    body = fn.node.body if isinstance(fn, FuncInfo) else fn.body
    if body and isinstance(body[0], ast.Expr) and isinstance(body[0].value, ast.Constant) and isinstance(body[0].value.value, str):
        return body[1:]
    return body
