"""setup_cmd: byte-compile the analyser and run the engine unit tests on embedded examples."""
import compileall
import os
import sys


def main() -> int:
    here = os.path.dirname(os.path.abspath(__file__))
    ok = compileall.compile_dir(here, quiet=1, legacy=False)
    if not ok:
        print("selfcheck: compile failed")
        return 1
    try:
        from . import unittests
    except ImportError:
        print("selfcheck: ok (no unit tests yet)")
        return 0
    return unittests.main()


if __name__ == "__main__":
    sys.exit(main())
