"""What is claimed in MANIFEST.json (regenerate with ./tools_manifest.py)."""

TRUST = "CPython ast; the analyser's transfer functions (unit-tested in setup_cmd, exercised both ways by sa/corpus); "

CLAIMS = {
    "C03": {
        "text": "Decides, for every path of _Packet.decode at once, that a decoded frame is only returned after a full-width "
                "keyed-MD5 equality whose operands partition the packet, that the plaintext derives only from signed bytes and "
                "that rejections are ProtocolErrors (explicit raises, and the may-raise analysis with the packet as taint source: no other "
                "class escapes decode). Structural necessary conditions of the property; collision resistance is trusted. Security.sign hashes the whole of its argument, and LAN._read returns nothing around the verifying decoder. The non-blocking drain swallows no rejection either.",
        "note": TRUST + "keyed MD5 changes when any covered bit changes",
        "technique": "value-flow terms + path-condition dominance on the ast (static analysis)",
    },
    "C09": {
        "text": "Interprocedural may-raise analysis (taint from data_received through the queue, value kinds, length facts incl. the V3 "
                "producer invariant, environment raisers) shows that for every peer byte sequence the exception classes escaping "
                "LAN.send / LAN.authenticate / Device.authenticate / Device._send_command stay inside the allowed sets (a function re-entering "
                "itself on a peer-selected path is a RecursionError raiser). "
                "Over-approximates paths (no feasibility reasoning), so 'holds' covers all inputs; library behaviour comes from a frozen model. Whether the transport is closing is peer-decided, and a predicate property that answers under a peer-decided branch gives a peer-decided answer (asserting it is a raiser). Nothing is stored in LAN._protocol on a path on which the connect fails.",
        "note": TRUST + "library model sa/libmodel.py; unknown library calls on tainted data are assumed benign and listed in the evidence",
        "technique": "taint + length-fact + may-raise effect analysis over the call graph (static analysis)",
    },
    "C14": {
        "text": "Same effect analysis with source = every byte string Device._send_command can return (any length, any content): the "
                "may-raise set of refresh/apply/get_capabilities/toggle_display/start_self_clean is empty, and the per-frame try/except "
                "sits inside the frame loop and continues; no mutable class-level object is shared between response objects. Every constant-index subscript, struct.unpack, enum construction and "
                "explicit raise on response data is an examined site (proved by a length/membership fact or contained by a handler).",
        "note": TRUST + "library model sa/libmodel.py",
        "technique": "taint + length-fact + may-raise effect analysis over the call graph (static analysis)",
    },
    "C18": {
        "text": "De-duplication decided from path conditions (task creation dominated by `source address not in seen set`, address added on "
                "every creating path, one create_task site, the result built from one gather over every recorded task, nothing removes - or hands out a remover of - recorded tasks; the reported ip is the source address on every path); per-host containment decided by the may-raise analysis "
                "with the datagram as taint source (escape set of datagram_received and of the per-host coroutine is empty); no shared "
                "per-host state (who-writes). The protocol cancels none of the tasks it recorded; per-run and shared state are checked by C18 itself. The task set is gathered after the listening socket was closed.",
        "note": TRUST + "library model; asyncio.gather re-raises the first task exception; interleavings need no exploration once hosts share no state",
        "technique": "path-condition dominance + taint/may-raise effect analysis + who-writes (static analysis)",
    },
    "C15": {
        "text": "For every path through the capability record loop at once: the cursor advances by exactly 3+size on each back edge "
                "(affine forms over value-flow terms), every read stays inside its record, the only loop-carried values are the cursor "
                "and write-only accumulators (the result dict), merge is an in-order dict.update (skipped at most when the other page is empty) and get_capabilities pages/merges/updates in the "
                "right order; the dict a response fills is not shared with class-level or module-level state. Together: parse(list) = fold of parse(record), independent of the split point. No memoised function hands out response objects and nothing a getter reads is derived from the dict at construction time only. The checksum formula obligation (C12.a) is imported. The supported-property set is rebuilt from the merged response on every fetch (the old contents do not survive).",
        "note": TRUST + "dict.update semantics",
        "technique": "cursor-advance / loop-carried-state analysis on value-flow terms (static analysis)",
    },
    "C13": {
        "text": "Validation dominates construction on every path of the response constructor (must-pass-through), the body-check "
                "exemption is exactly the PropertiesResponse class selected by ids 0xB0/0xB1, checksum/CRC coverage ranges and the "
                "accept condition (normal completion implies CRC-8 or additive match) are read off value-flow terms, and only "
                "normally constructed responses can reach the valid list, _update_state, `supported` and `online`; the may-raise analysis "
                "shows only the two validation exceptions caught by the frame loop escape Response.construct for any frame bytes. Device._send_command returns the frames of LAN.send unmodified, and C14's containment obligations are imported (a rejected frame is dropped, nothing escapes). The operations store no exposed attribute themselves; C12's CRC table and checksum formula obligations are imported.",
        "note": TRUST + "no arithmetic claim about the accept-either coincidence (1 in 255), stated in DESIGN.md",
        "technique": "must-pass-through + value-flow range/provenance analysis (static analysis)",
    },
    "C02": {
        "text": "The byte layout of _Packet.encode is derived from the source as a sequence of segments with affine lengths and compared "
                "with the stated V2 format (marker, type, LE16 total length = actual length, magic, 8-byte timestamp, LE64 id at 20, "
                "40-byte header, AES-ECB(PKCS7(command)), MD5(everything before ‖ key)); the decoder's ranges, byte order and inverse "
                "transform agree with it; key/mode/block pairing by constant folding; every emitted byte is interval-bounded; no packet byte is "
                "left in a buffer the next call reuses (held-buffer mutation on value-flow terms). Holds "
                "for all frames, ids and timestamps at once because lengths and values are symbolic. What LAN.send writes on a V2 connection is that encoding of the frame it was given, handed unmodified to the transport, and what it returns went through the decoder (pipeline connectivity). The id wrapped is the constructor's device id unmodified, and the V2 receive path frames by the length field (reassembly premises re-run). The codec classes (Security, _Packet) store nothing on themselves: every packet is computed from its arguments and the constants alone.",
        "note": TRUST + "AES-128-ECB / PKCS7 / MD5 implementations",
        "technique": "byte-sequence layout + affine length + interval abstract domains over value-flow terms (static analysis)",
    },
    "C05": {
        "text": "Layout of the V3 encrypted request derived symbolically; the pad is evaluated in the congruence domain for all 16 "
                "residues of (len+2) mod 16; declared size = actual − 8; tag over header ‖ plaintext on both sides; decoder ranges, pad "
                "nibble, counter width agree; the payload strip is decided for pad = 0 and pad > 0 (x[a:-0] is empty); every decoded "
                "return is dominated by the full-width SHA-256 equality and rejections are ProtocolErrors; the unauthenticated type nibble "
                "selects the handshake branch only while a handshake is pending (flag set before the write, lowered by a finally / catch-all on every exit, named or not - also through extracted helpers). write() hands the encoding selected by the packet type, unmodified, to the transport. The reassembly premises of C04 are re-run (a response only reaches the decoder if it is delivered whole, whatever arrived before it).",
        "note": TRUST + "SHA-256 / AES-CBC implementations; Python slicing semantics",
        "technique": "byte-sequence layout + congruence + interval domains, path-condition dominance (static analysis)",
    },
    "C04": {
        "text": "Segmentation independence is reduced to the inductive invariant of data_received (buffer = undelivered suffix, no "
                "complete leading packet) and its premises are decided on value-flow terms: framing constant 8 agrees with both "
                "encoders' affine lengths, tight `len(view) >= N` guard, delivered/kept partition at one N, append-not-replace, "
                "untouched buffer on early returns, extraction loop ending only on an empty buffer, one FIFO put per packet. The reassembly buffer is per-connection and written only by the initialisers and the receive callback. The receive queue is unbounded (put_nowait cannot fail).",
        "note": TRUST + "asyncio.Queue FIFO; bytearray.find / slicing semantics; the function is sequential, so no schedule needs exploring",
        "technique": "inductive-invariant premises checked on value-flow terms + affine lengths (static analysis)",
    },
    "C12": {
        "text": "Layouts of Frame.tobytes, Command.tobytes and all 8 command classes are derived symbolically: AA, length byte = |frame|−1 "
                "(affine), 0xAC, documented frame type per class (constructor resolution), body = data ‖ id ‖ crc8(data ‖ id), checksum "
                "over [1:-1]; every tobytes override ends in the base framing; counter +1 & 0xFF; CRC table = generated Dallas/Maxim "
                "table = vendor Lua table; property command count/record layouts; length byte fits for the largest command; one counter "
                "shared by all command classes; tobytes mutates no buffer held by the object (same command serialises identically). A command handed to the send chain is serialised exactly once.",
        "note": TRUST + "vendor Lua table read lexically",
        "technique": "byte-sequence layout domain + constructor resolution + constant folding (static analysis)",
    },
    "C10": {
        "text": "SetStateCommand.tobytes is interpreted abstractly in a bit-field / linear-form domain over the declared domains of all "
                "16 settable fields at once (guard regions for the set-point and half-degree flag are abstract elements); the vendor "
                "reference decode applied to the abstract 24-byte body returns every source field (left inverse ⇒ distinct states give "
                "distinct bodies); no bit collisions, no lossy masks, every byte ≤ 255; the def-use chain setter → attribute → apply → command "
                "attribute passes every requested value unchanged. All 62 set-points × modes × flags are one abstract state. The CLI's ordering obligation (nothing refreshes the device between assignment and apply, C20.e) is imported. Deprecated setting aliases are transparent wrappers, and a setter writes no other field of the requested state. apply() fills the command before it first suspends (a snapshot of the requested state; suspension-point analysis). apply() does not change an attribute it encodes and change it back.",
        "note": TRUST + "transcription of the vendor layout rows (each cites its Lua line, constants re-read from the Lua)",
        "technique": "abstract interpretation in a bit-field/interval/affine domain with trace partitioning (static analysis)",
    },
    "C11": {
        "text": "StateResponse._parse is interpreted abstractly over an abstract payload built from the vendor 0xC0 layout (every reference "
                "field a source over its full raw domain, don't-care bits free, symbolic length >= 16); in every guard region each of the 19 "
                "attributes equals the reported field, optional fields are None exactly where the length does not cover them; "
                "_parse_temperature's decision tree is checked leaf by leaf in a linear-form domain with the trunc relation (None iff "
                "0xFF, within one degree, exact tenths in Celsius); _update_state stores every attribute on every way through its state branch, converts the custom fan speed inside a handler for the enum's ValueError and, with the getters, maps each attribute unchanged. The constructor hands every payload of reportable length to _parse, and the checksum formula the validator uses (C12.a) is imported. No _missing_ hook turns unknown fan speeds into members, and refresh applies every response it collected. LAN.send returns the frames of an exchange in arrival order, so the latest report is the one exposed.",
        "note": TRUST + "vendor layout rows (Lua lines cited); exact rationals stand for floats of halves/tenths",
        "technique": "abstract interpretation in a bit-field/linear-form domain with trace partitioning + def-use mapping (static analysis)",
    },
    "C08": {
        "text": "The retry loops of LAN.send and LAN.authenticate are explored as control automata for every budget 1..4 and every "
                "sequence of read outcomes (ok / timeout / protocol error / cancellation): transmissions ∈ [1,R], no retransmission after "
                "a response, R timeouts ⇒ TimeoutError after exactly R transmissions, every failure exit disconnects first and leaves as "
                "timeout/protocol error; plus must-pass-through reconnect in send, _disconnect/_connect/_alive/alive/write facts from "
                "value-flow terms (the wait on the receive queue has a timeout that no handler below the retry loop swallows; no self._protocol.<x> where the path condition, short-circuit operands or every caller's guard leave it possibly None) and the may-raise analysis with environment raisers for connect failures and Device._send_command; the "
                "reassembly premises of C04 (every response that arrives is delivered) and the session discipline of C07 (re-authentication on V3) are re-run as premises. A handshake is offered only on a connection found alive and V3 or on a fresh one. The credentials are cached in the atomic section in which the handshake succeeded (no cancellation point before the stores). A handshake abandoned by cancellation closes the connection before the cancellation propagates (retry-loop exploration with cancellation as an outcome; defect F9, repaired), and the response to a pending handshake is accepted whatever session state the connection holds.",
        "note": TRUST + "timing relative to the 2 s read timeout and success of the following exchange on a real socket are not decided",
        "technique": "conditional-constant exploration of retry-loop automata + must-pass-through + may-raise effects (static analysis)",
    },
    "C06": {
        "text": "The SHA-256 proof comparison dominates every return of _get_local_key (path conditions), its operands partition the reply and "
                "bind it to the configured key; key/expiry are written only by __init__ and authenticate, the stored key is the verified "
                "return value, no session attribute is stored between the reply read and the proof, every raising path leaves them untouched; LAN credential stores are reached only after a successful "
                "handshake for every budget/outcome sequence (loop exploration); the only write is write(token, HANDSHAKE_REQUEST) after "
                "the flush; reply-caused failures surface as AuthenticationError (may-raise analysis); expiry = now + 12 h; the premises of the V3 codec the reply travels through (C05) are imported. _flush empties the queue (loop until empty); the credentials offered are the given ones as bytes or the stored ones; the premises of reassembly (C04) and session discipline (C07) are imported.",
        "note": TRUST + "that both sides derive the same key (XOR/AES algebra) is trusted",
        "technique": "path-condition dominance + who-writes + retry-loop exploration + may-raise effects (static analysis)",
    },
    "C07": {
        "text": "Typestate decided as invariants each call re-establishes: the data write in LAN.send is dominated by not-V3 / authenticated "
                "/ completed authenticate(); single data-write and handshake-write sites; key guard in the encoder; session state is "
                "per-instance and the factory constructs a fresh protocol per connection; counter' = (counter+1) mod 2^k, k ≤ 16, serialised as 2 bytes big-endian by both V3 encoders (layout domain); "
                "`authenticated` and `_alive` lifetime predicates have the right polarity and constants (12 h). An assert is not taken for the handshake; C06's who-writes / proof obligations are imported. The device layer awaits its exchanges one at a time (no gather / task over sends on one connection). Only the constructor and write() store the packet counter (a re-handshake does not rewind it).",
        "note": TRUST + "wall-clock behaviour is not decided; histories need no enumeration because each clause is a per-call invariant",
        "technique": "must-pass-through typestate + who-may-call + value-flow/affine-mod reasoning (static analysis)",
    },
    "C17": {
        "text": "Each reported identity field is traced through value-flow terms to the byte range / byte order it is read from (id LE at 20, "
                "body [40:-16], port [4:6] LE unsigned, sn [8:40], name [41:41+n], type from the name) and compared with the reply format; ip comes "
                "from the datagram source and version from the detected version; Device stores and returns every field unchanged; version "
                "and class dispatch tables; DISCOVERY_MSG folds to a self-consistent signed 72-byte packet sent to 6445/20086; discover() listens for the whole timeout on every path; the per-host "
                "containment obligations of C18 are re-run as premises (another host's reply cannot abort the run). None of the callbacks asyncio runs while discover() listens closes the transport.",
        "note": TRUST + "the reply format table (matches the two captured replies pinned by the tests)",
        "technique": "value-flow range/provenance analysis + constant folding (static analysis)",
    },
    "C19": {
        "text": "Value-flow terms show the signature is the last mutation of the posted body and is sha256(path ‖ sorted url-encoded items ‖ "
                "APP_KEY); bodies carry the stored sessionId and stamp; the login password derivation of both clouds (SmartHome: salted with the login key of the selected server); get_token returns token/key of the "
                "very element compared equal to the requested udpid, else CloudError; _post_request explored for budgets 1..3 with the HTTP "
                "client as oracle (attempts ≤ R, every exceptional exit a CloudError); both byte orders tried with the credentials fetched "
                "for that order's udpid; the cloud client is cached for reuse only after login() completed. Every network failure of Device.authenticate is an AuthenticationError (C06.d), so both byte orders are tried. discover() drops the cloud client of an earlier run unless region, account and password are all compared equal. Every value the login body's password field can take is this request's derivation from this login's id.",
        "note": TRUST + "acceptance by the real cloud service; JSON/KeyError on malformed server answers are outside the property",
        "technique": "value-flow provenance + retry-loop exploration (static analysis)",
    },
    "C20": {
        "text": "Event analyses on _control show the whole parsing/validation loop (and every exit it reaches, all non-zero) precedes the first "
                "network call, conversion is reached only for existing writable properties, the stored value's decision tree has exactly the "
                "documented leaves (enum by value / raw int only for FanSpeed / by upper-cased name, bool via capitalised literal, number via "
                "the default's type), every writable property has a non-None convertible default, and refresh → pop display → toggle-if-"
                "different → setattr → apply-if-pending ordering holds; manual connect uses port 6444. No handler or exiting finally between _control and the interpreter replaces its exit status. A catch-all handler in the runner re-raises or exits non-zero; deprecated aliases read the same default. The reassembly premises of C04 are re-run: a display toggle whose reply is lost on the way up would be retransmitted, and a toggle is not idempotent. apply()'s snapshot obligations (C10.g) are imported.",
        "note": TRUST + "argparse and README prose beyond these clauses; clause (d) is partly idiom-pinned (.upper() / .capitalize()), stated in DESIGN.md",
        "technique": "may/must event (dominance) analysis + value-flow decision-tree extraction + inventory (static analysis)",
    },
    "C16": {
        "text": "Def-use chains tie each of the 7 setters to the id it records, the _PROPERTY_MAP entry that reads the very field it stored "
                "and the public getter; must/may event analysis of apply shows the write is sent exactly once per non-empty change set and "
                "the set is cleared after props was computed on every sending completion; PropertyId.encode/decode layouts match the vendor "
                "value encodings (ids and lengths re-read from the Lua); the response parser advances 4+len per record; breeze exclusivity "
                "and BREEZE_CONTROL precedence from the gated terms; response handlers store backing fields, never the recording setters; "
                "BreezeMode members carry the vendor's values (bounds re-read from the Lua); capability record id, reader name, response property and the PropertyId marked supported "
                "agree along each of the 7 chains; the 5 property read-backs store whenever the property is present (not when truthy). Only apply takes ids out of the pending set; a properties response owns its value dict. C15.d (merge direction, what _update_capabilities sees) is imported.",
        "note": TRUST + "vendor value encodings (Lua lines cited); read-back equality through a live device is not decided",
        "technique": "def-use chain + must/may event analysis + layout domain + cursor-advance analysis (static analysis)",
    },
    "C01": {
        "text": "Decided compositionally: def-use chains setter → backing attribute → apply → SetStateCommand attribute for all 16 settable "
                "states, then C10's abstract round trip to the vendor decode; C11's decode chain back to the getters; value-flow "
                "connectivity of _send_command / LAN.send / _read / drains / V3 write+read; every response of an exchange reaches "
                "_update_state (the valid list is returned as collected: no filtering, de-duplication or truncation), whose stores are overwrite-only; both data_received implementations satisfy the reassembly premises; the "
                "transport obligations of C02/C04/C05/C12 are re-run, not assumed. C13's (and through it C14's) obligations are imported: every valid frame of an exchange is used, every invalid one only dropped. The pre-send drain and the first transmission lie in one atomic section (suspension-point analysis: no await / async for / async with between them), and the frames of an exchange are returned in arrival order.",
        "note": TRUST + "AES/MD5/SHA behave as specified; byte equality through the ciphers and real TCP schedules are not explored (not needed: "
                "receive callbacks are sequential)",
        "technique": "compositional static analysis: def-use chains + abstract round trips + reassembly-invariant premises",
    },
}
NOT_APPLICABLE = {}
