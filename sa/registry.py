"""What is claimed in MANIFEST.json (regenerate with ./tools_manifest.py)."""

TRUST = "CPython ast; the analyser's transfer functions (unit-tested in setup_cmd, exercised both ways by sa/corpus); "

CLAIMS = {
    "C03": {
        "text": "Decides, for every path of _Packet.decode at once, that a decoded frame is only returned after a full-width "
                "keyed-MD5 equality whose operands partition the packet, that the plaintext derives only from signed bytes and "
                "that rejections are ProtocolErrors. Structural necessary conditions of the property; collision resistance is trusted.",
        "note": TRUST + "keyed MD5 changes when any covered bit changes",
        "technique": "value-flow terms + path-condition dominance on the ast (static analysis)",
    },
}
NOT_APPLICABLE = {}
