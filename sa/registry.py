"""What is claimed in MANIFEST.json (regenerate with ./tools_manifest.py)."""
CLAIMS = {}
NOT_APPLICABLE = {}
