"""E8 - self-validation: each rule must fire on a one-construct variant of the current tree and stay silent on
behaviour-preserving rewrites.  Variants are source overlays handed to the analyser; /repo and the disk are
never touched.

Corpus entries live in sa/corpus/<prop>.py as lists of
    M(name, file, old, new, expect)        expect: "V" (violation naming the property) | "S" (silent, exit 0)
`old` must occur exactly once in the current file; a stale entry (anchor text gone) is reported as skipped,
never as a pass.
"""
from __future__ import annotations

import contextlib
import importlib
import io
import os
import sys
from concurrent.futures import ProcessPoolExecutor
from dataclasses import dataclass
from typing import List, Optional

from .model import REPO


@dataclass
class M:
    name: str
    file: str
    old: str
    new: str
    expect: str = "V"
    also: Optional[list] = None   # additional (file, old, new) edits


def _apply(src: str, old: str, new: str) -> Optional[str]:
    if src.count(old) != 1:
        return None
    return src.replace(old, new, 1)


def build_overlay(m: M, root=None):
    root = root or REPO
    edits = [(m.file, m.old, m.new)] + list(m.also or [])
    ov = {}
    for f, old, new in edits:
        src = ov.get(f)
        if src is None:
            with open(os.path.join(root, f)) as fh:
                src = fh.read()
        out = _apply(src, old, new)
        if out is None:
            return None
        ov[f] = out
    return ov


def _run_one(args):
    prop, m = args
    from .driver import run_property
    ov = build_overlay(m)
    if ov is None:
        return (m.name, "stale", "", m.expect)
    buf = io.StringIO()
    with contextlib.redirect_stdout(buf), contextlib.redirect_stderr(buf):
        rc = run_property(prop, "quick", 0, overlay=ov, write=False)
    return (m.name, rc, buf.getvalue(), m.expect)


def run_corpus(prop: str, jobs: int = 16, verbose=False):
    try:
        mod = importlib.import_module(f"sa.corpus.{prop.lower()}")
    except ModuleNotFoundError:
        return None
    items = [(prop, m) for m in mod.CORPUS]
    if jobs > 1 and len(items) > 3:
        with ProcessPoolExecutor(max_workers=min(jobs, len(items))) as ex:
            res = list(ex.map(_run_one, items))
    else:
        res = [_run_one(i) for i in items]
    report = {"total": len(res), "ok": 0, "stale": [], "failed": []}
    for name, rc, out, expect in res:
        if rc == "stale":
            report["stale"].append(name)
            continue
        want = 1 if expect == "V" else 0
        good = (rc == want) and (expect != "V" or f"VIOLATION property={prop}" in out)
        if good:
            report["ok"] += 1
        else:
            report["failed"].append({"name": name, "expect": expect, "rc": rc, "out": out[-1500:]})
        if verbose:
            print(f"  [{'ok' if good else 'FAIL'}] {name}: expect {expect} rc={rc}")
    return report


def main(argv):
    props = argv or [f"C{i:02d}" for i in range(1, 21)]
    bad = 0
    for p in props:
        r = run_corpus(p.upper(), verbose=True)
        if r is None:
            continue
        print(f"{p}: {r['ok']}/{r['total']} ok, stale={r['stale']}, failed={[f['name'] for f in r['failed']]}")
        for f in r["failed"]:
            print("----", f["name"], "expected", f["expect"], "rc", f["rc"])
            print(f["out"])
        bad += len(r["failed"])
    return 1 if bad else 0


if __name__ == "__main__":
    sys.exit(main(sys.argv[1:]))
