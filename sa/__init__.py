"""Static analysis machinery for midea-msmart (see /verif/DESIGN.md)."""
