#!/venv/bin/python
"""Regenerates MANIFEST.json from sa/registry.py (single source of truth for claims)."""
import json
import os
import sys

sys.path.insert(0, os.path.dirname(os.path.abspath(__file__)))
from sa.registry import CLAIMS, NOT_APPLICABLE  # noqa: E402

ALL = [f"C{i:02d}" for i in range(1, 21)]
checks = []
for pid in ALL:
    if pid not in CLAIMS:
        continue
    c = CLAIMS[pid]
    checks.append({
        "property_id": pid,
        "quick_cmd": f"./check {pid} --tier quick",
        "thorough_cmd": f"./check {pid} --tier thorough",
        "evidence_file": f"/verif/evidence/{pid}.json",
        "replay_cmd_template": "./check --explain {path}",
        "engine": "sa",
        "level_claimed": {"category": "other", "text": c["text"], "design_ref": f"DESIGN.md §3 {pid}"},
        "level_note": c["note"],
        "technique": c["technique"],
    })
na = [{"property_id": p, "reason": NOT_APPLICABLE.get(p, "check not built yet (see DESIGN.md)")} for p in ALL if p not in CLAIMS]
man = {
    "version": 1,
    "setup_cmd": "/venv/bin/python -m sa.selfcheck",
    "hooks": {
        "guard": "MSMART_VERIF",
        "enable": "none needed: the analyser reads /repo's source; no instrumentation exists in /repo",
        "baseline_off_cmd": "cd /repo && /venv/bin/python -m pytest -ra -q -p no:cacheprovider --timeout=900 --continue-on-collection-errors",
        "source_commits": [],
        "add_only": True,
    },
    "engines": [
        {"name": "sa", "path": "/verif/sa", "serves_properties": sorted(CLAIMS),
         "kind_free_text": "repository-specific static analyser on Python's ast: program model and call resolution, "
                           "structured abstract interpretation (must/may event sets, length facts, taint, may-raise sets), "
                           "bit-field / byte-layout / affine abstract domains, retry-loop and cursor-advance path rules"},
    ],
    "checks": checks,
    "notes": "Static analysis only: no module of /repo is imported or executed by any check. exit 2 = ANALYSIS-ERROR "
             "(anchor vanished / unsupported construct), never reported as a violation. Two rules run with every check on the functions "
             "it analysed: a coroutine function of the package called without being awaited / scheduled (<id>.await) and an exception "
             "constructed but not raised (<id>.raise). Asserts are conditional raises to every engine unless the asserted condition is "
             "proven from the path (lengths, integer ranges, classes). Before the rules run, three source-level pre-passes undo what routine "
             "maintenance does to the anchors: consistent renames of private names (sa/names.py), newer syntax (sa/desugar.py), and moves of "
             "definitions between modules, reordered or keyword-only parameters, helpers extracted across modules and called in statement / tail position, results handed to the caller to store (sa/moves.py). A check may import another property's "
             "obligations as premises (C01<-C02,C04,C05,C10,C11,C12,C13; C05<-C04; C06<-C04,C05,C07; C07<-C06; C08<-C04,C07; C10<-C20.e; C11<-C12.a; C13<-C14,C12.a,C12.e; C15<-C12.a; C16<-C15.d; C17<-C18; C19<-C06.d; C20<-C04,C10.g). "
             "The checks were also run against 554 independently written behaviour-preserving changes and feature additions (neutral/: all silent) "
             "and 359 independently written breaking changes (seeded/: each reported by its own property); see DESIGN.md section 8.",
    "not_applicable": na,
}
with open(os.path.join(os.path.dirname(os.path.abspath(__file__)), "MANIFEST.json"), "w") as fh:
    json.dump(man, fh, indent=1)
print(f"MANIFEST.json: {len(checks)} checks, {len(na)} not_applicable")
